"""vmc - bounded exhaustive exploration ("model checking") of pymemcache.

See /verif/DESIGN.md.  Everything here runs on /venv/bin/python (3.12) with
no third-party packages; pymemcache is imported from $VERIF_REPO (default
/repo), never copied.
"""
