"""Finite key corpora shared by C02 and C20 (bounded-exhaustive, structured; nothing random)."""

from __future__ import annotations

import itertools

FORBIDDEN = frozenset(b" \t\r\n\x0b\x0c\x00")
# one representative per equivalence class of the byte alphabet (for length-3 keys)
CLASS_BYTES = [0x20, 0x09, 0x0A, 0x0D, 0x0B, 0x0C, 0x00, 0x01, 0x1C, 0x7F, ord("a"), ord("0"), 0x80, 0xC3, 0xA9, 0xFF]
# incl. non-ASCII "whitespace" and code points that Unicode normalisation would change
EXTRA_CODEPOINTS = [0x100, 0x20AC, 0x2603, 0x1F600, 0x3000, 0x2028, 0x0301, 0x212B, 0x0958, 0x1100]
PREFIXES = [b"", b"p", b"ns:", b"p" * 125, b"p" * 249, b"p" * 250, b"a b", b"\tp"]


def legal(key, prefix: bytes, allow_unicode: bool):
    """Independent legality predicate written from the statement of C20.
    Returns (verdict, wire): verdict in {'legal', 'illegal', 'outside'}; wire = prefix+encoded key."""
    if isinstance(key, str):
        try:
            kb = key.encode("utf8" if allow_unicode else "ascii")
        except UnicodeEncodeError:
            return "illegal", None
    else:
        kb = bytes(key)
    full = prefix + kb
    if len(full) == 0:
        return "outside", full
    if len(full) > 250:
        return "illegal", full
    for b in full:
        if b in FORBIDDEN:
            return "illegal", full
    return "legal", full


def reason(key, prefix, allow_unicode):
    """Coarse class of a key, used in violation signatures."""
    t = "str" if isinstance(key, str) else "bytes"
    if isinstance(key, str):
        try:
            kb = key.encode("utf8" if allow_unicode else "ascii")
        except UnicodeEncodeError:
            return f"{t}:non-ascii"
    else:
        kb = key
    full = prefix + kb
    if len(full) == 0:
        return f"{t}:empty"
    if len(full) > 250:
        return f"{t}:too-long"
    bad = sorted({b for b in full if b in FORBIDDEN})
    if bad:
        where = "prefix" if any(b in FORBIDDEN for b in prefix) else ("only-separators" if all(b in FORBIDDEN for b in kb) else "mixed")
        return f"{t}:has-{'/'.join('%02x' % b for b in bad[:2])}:{where}"
    if any(b >= 0x80 for b in full):
        return f"{t}:high-bytes:len{min(len(full), 251)}" if len(full) >= 248 else f"{t}:high-bytes"
    return f"{t}:plain:len{len(full)}" if len(full) >= 248 else f"{t}:plain"


def short_keys(maxlen, as_str):
    """All keys of length 0..maxlen over the full byte alphabet (code points 0..255 for str,
    plus a few higher code points)."""
    alpha = list(range(256))
    if as_str:
        alpha = alpha + EXTRA_CODEPOINTS
    for n in range(0, maxlen + 1):
        for tup in itertools.product(alpha, repeat=n):
            yield "".join(map(chr, tup)) if as_str else bytes(tup)


def class_keys(n, as_str):
    for tup in itertools.product(CLASS_BYTES, repeat=n):
        yield "".join(map(chr, tup)) if as_str else bytes(tup)


def long_keys(as_str, byte_values=range(256), lengths=(249, 250, 251), stride=1):
    """A filler key of each length with every byte value at every (stride-th) position."""
    for L in lengths:
        for p in range(0, L, stride):
            for b in byte_values:
                k = bytearray(b"k" * L)
                k[p] = b
                yield k.decode("latin1") if as_str else bytes(k)


def boundary_keys(prefix_len, prefix=None):
    """Keys whose encoded length straddles 250 - prefix_len, for 1-,2-,3-,4-byte characters."""
    room = 250 - prefix_len
    out = []
    if prefix is not None and prefix:
        # keys that begin with the prefix bytes themselves (must still be prefixed on the wire)
        try:
            ps = prefix.decode("ascii")
            out += [ps, ps + "k", ps + ps, prefix, prefix + b"k", prefix + prefix]
        except UnicodeDecodeError:
            out += [prefix, prefix + b"k"]
    for ch in ("a", "é", "€", "\U0001F600", "e\u0301", "\u0958", "\u212b"):
        w = len(ch.encode("utf8"))
        for total in range(room - 5, room + 6):
            if total <= 0:
                continue
            n, rem = divmod(total, w)
            if n == 0:
                continue
            s = ch * n + "a" * rem
            out.append(s)
            out.append(s.encode("utf8"))
    return out
