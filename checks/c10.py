"""C10 - asynchronous interruption cannot desynchronise a client or leak a pool slot.

Engine E1 over crash points.  op1 is interrupted at every socket call inside it (resolve,
create, options, timeouts, connect, send, receive, close - before and, where the call has an
effect, after the effect) by KeyboardInterrupt / SystemExit / a BaseException subclass; then
op2 [; op3] run.  Oracle: the interruption propagates; the reply-ownership oracle of C01 on
all later calls; no pool slot stays checked out once the interrupted call has unwound.
"""

from __future__ import annotations

from vmc import connoracle, explore, ops, runner, simnet, stacks

PROPERTY = "C10"
LEVEL = "fault_enumeration"
RULE = (
    "executions = stack x op1;op2[;op3] x one interruption point (every socket call of every call, "
    "3 exception types, before/after effect) [thorough: + <=1 ordinary deviation]; non-trivial = an "
    "interruption was injected; distinct = distinct (stack, op names, plan kinds, result kinds)"
)
STACKS = ("client", "pooled1", "pooled2", "pooled_idle", "hash1", "hash2p", "client_ign", "pooled_ign", "hash1_ign")
FETCH_OPS = ("get", "gets", "gat", "gats", "get_many", "gets_many", "stats")
INT_ONLY = simnet.with_interrupts({})
INT_PLUS = simnet.with_interrupts(simnet.MENU_CONN)
INT_PLUS1 = simnet.with_interrupts(simnet.MENU_CONN, kinds=("baseexc",))
MENUS = {"int_only": INT_ONLY, "int_plus": INT_PLUS, "int_plus1": INT_PLUS1}
IDLE = 10


def _cfg(stack):
    if stack == "pooled1":
        return "pooled", {"max_pool_size": 1}
    if stack == "pooled2":
        return "pooled", {"max_pool_size": 2}
    if stack == "pooled_idle":
        return "pooled", {"max_pool_size": 2, "pool_idle_timeout": IDLE}
    if stack.endswith("_ign"):
        # ignore_exc swallows errors; an interruption is not an error and must still clean up and propagate
        return {"client_ign": "client", "pooled_ign": "pooled", "hash1_ign": "hash1"}[stack], {"ignore_exc": True}
    return stack, {}


def _between(stack):
    if stack != "pooled_idle":
        return None

    def adv(net, obj, i):
        net.clock.advance(IDLE + 1)  # every checkout finds the idle connection expired

    return adv


def _alphabet():
    return ops.alphabet(noreplies=(None, False))


def _probes(alpha):
    want = ("set('a',b'7',noreply=False)", "get('a')", "add('c',b'v',noreply=False)")
    return [o for o in alpha if o.label.replace(" ", "") in want]


def _stack_class(stack):
    from pymemcache.client.base import Client, PooledClient
    from pymemcache.client.hash import HashClient

    base = _cfg(stack)[0]
    return {"client": Client, "pooled": PooledClient}.get(base, HashClient)


def _jobs(tier):
    alpha = _alphabet()
    return [(stack, i1, tier) for stack in STACKS for i1 in range(len(alpha))
            if not stack.endswith("_ign") or stack == "hash1_ign" or alpha[i1].name in FETCH_OPS]


def run_seq(ch, stack, seq, menu):
    base, cfg = _cfg(stack)
    return connoracle.run_sequence(ch, base, True, seq, menu, "quick", cfg=cfg, between=_between(stack),
                                   delivery="segment")


def judge(ch, net, obj, rec, stack, seq):
    out = []
    ints = [(pi, k, l) for (pi, k, l) in ch.labels if isinstance(l, str) and l.startswith("int")]
    # the interruption propagates out of the call it hit (it is never swallowed)
    for pi, k, l in ints:
        name = l.split(":", 1)[1]
        for i, r in enumerate(rec, 1):
            if r["p0"] <= pi < r["p1"]:
                if r["kind"] != "base" or not isinstance(r["value"], simnet.INTERRUPTS[name]):
                    out.append(("interruption-swallowed", i,
                                f"call {i} ({seq[i-1].label}) was interrupted by {simnet.INTERRUPTS[name].__name__} in "
                                f"{k}() but ended with {r['kind']} {connoracle.short(r['value'])}"))
    base, _ = _cfg(stack)
    out += connoracle.judge(ch, net, obj, rec, base, True, seq,
                            base=connoracle.baseline_kinds(base, True, seq, _cfg(stack)[1], "segment")
                            if _between(stack) is None else None)
    for i, r in enumerate(rec, 1):
        if r["used"]:
            out.append(("pool-slot-lost", i, f"after call {i} ({seq[i-1].label}) {r['used']} pooled connection(s) "
                        f"are still checked out"))
            break
        if r["kind"] == "exc" and isinstance(r["value"], RuntimeError) and "Too many objects" in str(r["value"]):
            out.append(("pool-slot-lost", i, f"call {i} ({seq[i-1].label}) failed with {r['value']!r}"))
            break
    return out


def _worker(job, chk):
    stack, i1, tier = job
    alpha = _alphabet()
    cls = _stack_class(stack)
    has = lambda o: hasattr(cls, o.name)  # noqa
    if not has(alpha[i1]):
        return
    seconds = [o for o in alpha if has(o)]
    probes = [o for o in _probes(alpha) if has(o)]
    pairs = [(alpha[i1], o2) for o2 in seconds]
    if tier == "quick":
        # (a) one interruption anywhere, every op1;op2   (b) one interruption + one ordinary
        # deviation, op2 from the probe set, one interruption type
        # (c) op1 interrupted on a connection an earlier call left open: get; op1; probe
        warm = next(o for o in alpha if o.label.replace(" ", "") == "get('a')")
        plans = [(pairs, INT_ONLY, 1), ([(alpha[i1], o2) for o2 in probes], INT_PLUS1, 2),
                 ([(warm, alpha[i1], o3) for o3 in probes], INT_ONLY, 1)]
    else:
        triples = [(alpha[i1], o2, o3) for o2 in seconds for o3 in probes]
        plans = [(pairs, INT_PLUS, 2), (triples, INT_ONLY, 1)]
    for seqs, menu, bound in plans:
        _explore(chk, stack, i1, tier, seqs, menu, bound)


def _explore(chk, stack, i1, tier, seqs, menu, bound):
    mname = {id(INT_ONLY): "int_only", id(INT_PLUS): "int_plus", id(INT_PLUS1): "int_plus1"}[id(menu)]
    for seq in seqs:
        def run(ch, seq=seq):
            return run_seq(ch, stack, seq, menu)

        def on_exec(ch, res, seq=seq):
            net, obj, rec = res
            nint = sum(1 for (_, _, l) in ch.labels if isinstance(l, str) and l.startswith("int"))
            if nint != 1:
                return  # plans without (or with two) interruptions belong to C01 / are out of scope
            chk.add()
            chk.outcome((stack, tuple(o.name for o in seq), connoracle.devsig(ch), connoracle.result_class(rec)))
            if len(chk.samples) < 1 and i1 == 5:
                chk.sample({"stack": stack, "sequence": [o.label for o in seq], "plan": ch.plan(),
                            "results": [(r["kind"], connoracle.short(r["value"])) for r in rec]})
            bad = judge(ch, net, obj, rec, stack, seq)
            if bad:
                clause, call, text = bad[0]
                sig = f"{clause}|{stack}|{seq[call-1].name if call else '?'}|{connoracle.devsig(ch)}"
                if sig not in chk.violations:
                    _, r2 = explore.replay(run, ch.choices)
                    if r2[0].events != net.events:
                        raise runner.HarnessError("harness nondeterminism in C10")
                chk.violation(sig, text, {"stack": stack, "sequence": [o.label for o in seq], "menu": mname,
                                          "choices": list(ch.choices), "plan": ch.plan(),
                                          "all": [b[2] for b in bad]})

        explore.explore(run, bound, on_exec)
        chk.count("sequences")


def run(chk):
    chk.rule = RULE
    chk.assumptions = ["an interruption is raised by the socket call itself (gevent-style) either before or after the call's effect",
                       "at most one interruption per history"]
    chk.info["interruption_points"] = list(simnet.ALL_POINTS)
    chk.info["plans"] = ("one interruption over all op1;op2 and over get;op1;probe + one interruption and one ordinary deviation over op1;probe"
                         if chk.tier == "quick" else
                         "one interruption and <=1 ordinary deviation over all op1;op2 + one interruption over op1;op2;probe")
    runner.parallel(chk, _worker, _jobs(chk.tier))


def replay(detail):
    alpha = {o.label: o for o in _alphabet()}
    seq = [alpha[l] for l in detail["sequence"]]
    stack = detail["stack"]
    menu = MENUS[detail.get("menu", "int_only")]
    ch, (net, obj, rec) = explore.replay(lambda c: run_seq(c, stack, seq, menu), detail["choices"])
    for ev in net.events:
        print("   ", ev)
    for i, r in enumerate(rec, 1):
        print(f"    call {i} {seq[i-1].label}: {r['kind']} {connoracle.short(r['value'])} used={r['used']}")
    return [b[2] for b in judge(ch, net, obj, rec, stack, seq)]
