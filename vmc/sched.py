"""E3: preemption-bounded deterministic scheduler for real threads running real library code.

Exactly one managed thread runs at a time (a baton of per-thread semaphores).  Scheduling
points: every bytecode instruction (or line) of the instrumented code objects
(sys.monitoring local events, CPython 3.12), every SimSocket call, every SimLock
acquire/release.  At a point the scheduler asks the chooser which enabled thread continues;
continuing the running thread is the default (cost 0), switching away from a thread that
could continue is a preemption (cost 1), switching because the running thread blocked or
finished is free.  explore_costed() enumerates every schedule within the preemption bound.
"""

from __future__ import annotations

import sys
import threading
import types

from vmc.runner import HarnessError

TOOL_ID = 4
_mon = sys.monitoring


class Abort(BaseException):
    """Raised inside managed threads to unwind them after a deadlock was detected."""


class CostChooser:
    __slots__ = ("prefix", "kinds", "nalts", "altcost", "choices", "cost", "trace")

    def __init__(self, prefix=()):
        self.prefix = prefix
        self.kinds = []
        self.nalts = []
        self.altcost = []  # cost of taking a non-default alternative at that point (0 or 1)
        self.choices = []
        self.cost = 0
        self.trace = []  # (point index, kind, chosen label) for non-default choices

    def choose(self, kind, labels, cost):
        i = len(self.choices)
        n = len(labels) + 1
        if i < len(self.prefix):
            c = self.prefix[i]
            if c >= n:
                raise HarnessError(f"schedule replay diverged at point {i}: choice {c} of {n} ({kind})")
        else:
            c = 0
        self.kinds.append(kind)
        self.nalts.append(n)
        self.altcost.append(cost)
        self.choices.append(c)
        if c:
            self.cost += cost
            self.trace.append((i, kind, labels[c - 1]))
        return c


def explore_costed(run, bound, on_exec, cap=None):
    """All executions of run(chooser) whose preemption count is <= bound."""
    stack = [()]
    count = 0
    while stack:
        prefix = stack.pop()
        ch = CostChooser(prefix)
        res = run(ch)
        if len(ch.choices) < len(prefix):
            raise HarnessError("schedule replay diverged: execution shorter than its prefix")
        count += 1
        on_exec(ch, res)
        if cap is not None and count >= cap and stack:
            return -count
        # cost accumulated before each point
        used = 0
        before = []
        for i, c in enumerate(ch.choices):
            before.append(used)
            if c:
                used += ch.altcost[i]
        for i in range(len(ch.choices) - 1, len(prefix) - 1, -1):
            n = ch.nalts[i]
            if n > 1 and before[i] + ch.altcost[i] <= bound:
                base = tuple(ch.choices[:i])
                for alt in range(n - 1, 0, -1):
                    stack.append(base + (alt,))
    return count


class _T:
    __slots__ = ("tid", "fn", "sem", "state", "exc", "thread", "result")

    def __init__(self, tid, fn):
        self.tid = tid
        self.fn = fn
        self.sem = threading.Semaphore(0)
        self.state = "ready"  # ready | blocked | finished
        self.exc = None
        self.thread = None
        self.result = None


class Sched:
    def __init__(self, chooser, invariant=None):
        self.chooser = chooser
        self.threads = []
        self.by_ident = {}
        self.cur = None
        self.abort = False
        self.deadlock = None
        self.done = threading.Semaphore(0)
        self.invariant = invariant
        self.broken = []  # invariant violations: (point index, text)
        self.npoints = 0
        self.switches = 0

    # -- setup -------------------------------------------------------------
    def add(self, fn):
        t = _T(len(self.threads), fn)
        self.threads.append(t)
        return t

    def current(self):
        return self.by_ident.get(threading.get_ident())

    def run(self):
        for t in self.threads:
            th = threading.Thread(target=self._body, args=(t,), daemon=True)
            t.thread = th
            th.start()
        self._dispatch(None, "start")
        if not self.done.acquire(timeout=60):
            self.abort = True
            raise HarnessError("scheduler watchdog: managed threads did not finish (real blocking call?)")
        for t in self.threads:
            t.thread.join(10)
        self.cur = None

    def _body(self, t):
        self.by_ident[threading.get_ident()] = t
        t.sem.acquire()
        try:
            t.result = t.fn()
        except BaseException as e:  # noqa - recorded, judged by the harness
            t.exc = e
        t.state = "finished"
        self._dispatch(t, "finish")

    # -- scheduling --------------------------------------------------------
    def _dispatch(self, cur, kind):
        """The calling thread `cur` (None = main) reached a scheduling point / gave up control."""
        ready = [t for t in self.threads if t.state == "ready"]
        if not ready:
            if all(t.state == "finished" for t in self.threads):
                self.done.release()
                return
            # some thread is blocked and nobody can run: deadlock
            if self.deadlock is None:
                self.deadlock = [t.tid for t in self.threads if t.state == "blocked"]
            self.abort = True
            nxt = next(t for t in self.threads if t.state == "blocked")
            nxt.state = "ready"
            self.cur = nxt
            nxt.sem.release()
            return
        cur_ready = cur is not None and cur.state == "ready"
        if self.abort:
            nxt = cur if cur_ready else ready[0]
        else:
            order = ([cur] if cur_ready else []) + [t for t in ready if t is not cur]
            if len(order) > 1:
                c = self.chooser.choose(kind, [t.tid for t in order[1:]], 1 if cur_ready else 0)
                nxt = order[c]
            else:
                nxt = order[0]
        if nxt is cur:
            return
        self.switches += 1
        self.cur = nxt
        nxt.sem.release()
        if cur is not None and cur.state != "finished":
            cur.sem.acquire()

    def point(self, kind="instr"):
        t = self.by_ident.get(threading.get_ident())
        if t is None or self.abort or t is not self.cur:
            return
        self.npoints += 1
        if self.invariant is not None and not self.broken:
            msg = self.invariant()
            if msg:
                self.broken.append((len(self.chooser.choices), msg))
        self._dispatch(t, kind)

    def block(self, t):
        """t cannot continue (waiting for a lock): run somebody else until it is made ready."""
        t.state = "blocked"
        self._dispatch(t, "block")


class SimLock:
    """A lock whose waiting is visible to the scheduler (handed in through lock_generator)."""

    def __init__(self, sched):
        self.sched = sched
        self.owner = None
        self.waiters = []
        self.acquisitions = 0

    def acquire(self, blocking=True, timeout=-1):
        s = self.sched
        t = s.current()
        s.point("acquire")
        while self.owner is not None:
            if s.abort:
                raise Abort()
            if t is None:
                raise HarnessError("unmanaged thread contends for a SimLock")
            if self.owner is t:
                # non-reentrant lock taken twice by the same thread: a self-deadlock
                pass
            if not blocking:
                return False
            self.waiters.append(t)
            s.block(t)
            if s.abort:
                raise Abort()
        self.owner = t if t is not None else "main"
        self.acquisitions += 1
        return True

    def release(self):
        self.owner = None
        for w in self.waiters:
            if w.state == "blocked":
                w.state = "ready"
        self.waiters = []
        self.sched.point("release")

    def locked(self):
        return self.owner is not None

    def __enter__(self):
        self.acquire()
        return self

    def __exit__(self, *a):
        self.release()


def code_objects_of(obj):
    """All code objects defined by a module / class / function, including nested ones."""
    seen = []

    def walk(co):
        if co in seen:
            return
        seen.append(co)
        for c in co.co_consts:
            if isinstance(c, types.CodeType):
                walk(c)

    def visit(o):
        if isinstance(o, types.FunctionType):
            walk(o.__code__)
        elif isinstance(o, (staticmethod, classmethod)):
            visit(o.__func__)
        elif isinstance(o, property):
            for f in (o.fget, o.fset, o.fdel):
                if f is not None:
                    visit(f)
        elif isinstance(o, type):
            for v in vars(o).values():
                visit(v)
        elif hasattr(o, "__wrapped__"):
            visit(o.__wrapped__)

    if isinstance(obj, types.ModuleType):
        for v in vars(obj).values():
            if getattr(v, "__module__", None) == obj.__name__:
                visit(v)
    else:
        visit(obj)
    return seen


class Instrument:
    """Installs INSTRUCTION (or LINE) events on the given code objects; the callback forwards to
    the scheduler currently installed in `self.sched`."""

    def __init__(self, codes, granularity="instruction"):
        self.codes = codes
        self.sched = None
        self.event = _mon.events.INSTRUCTION if granularity == "instruction" else _mon.events.LINE
        if _mon.get_tool(TOOL_ID) is None:
            _mon.use_tool_id(TOOL_ID, "vmc-sched")
        _mon.register_callback(TOOL_ID, self.event, self._cb)
        for co in codes:
            _mon.set_local_events(TOOL_ID, co, self.event)

    def _cb(self, code, where):
        s = self.sched
        if s is not None:
            s.point("instr")

    def uninstall(self):
        for co in self.codes:
            _mon.set_local_events(TOOL_ID, co, 0)
        _mon.register_callback(TOOL_ID, self.event, None)
