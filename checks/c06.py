"""C06 - connection lifecycle: errors close, next call reconnects, no socket leaks.

Engine E1.  Histories op1;op2[;op3];close() on a Client alone, inside a PooledClient and
inside a HashClient, over TCP with 1..3 resolved addresses, a UNIX socket and a TLS-wrapped
connection, under every fault plan with <= bound deviations over
{getaddrinfo, socket(), setsockopt, wrap_socket, settimeout, connect, sendall, recv, close};
socket-lifecycle monitors run over the event log of every execution.
"""

from __future__ import annotations

import socket as realsocket

from pymemcache.client.base import Client, KeepaliveOpts, PooledClient
from pymemcache.client.hash import HashClient

from vmc import connoracle, explore, ops, runner, simnet, stacks
from vmc.ops import Op

PROPERTY = "C06"
LEVEL = "fault_enumeration"
RULE = (
    "executions = transport x option set x stack x history (ops from get/set/set-noreply/get_many/quit, "
    "then close()) x fault plan with <= bound deviations over every socket-level call; non-trivial = "
    ">=1 deviation took effect; distinct = distinct (config, op names, deviation kinds, result kinds)"
)

OPS = [
    Op("get", "a"),
    Op("set", "a", b"1", noreply=False),
    Op("set", "b", b"2", noreply=True),
    Op("get_many", ["a", "b"]),
    Op("quit"),
    Op("set_many", {"a": b"1", "b": b"2", "c": b"3"}, noreply=False),
]
CLOSE = Op("close")

TRANSPORTS = ("tcp1", "tcp2", "tcp3", "unix", "tls")
ADDRS = {
    "tcp1": [(realsocket.AF_INET, "10.0.0.1")],
    "tcp2": [(realsocket.AF_INET6, "fd00::1"), (realsocket.AF_INET, "10.0.0.1")],
    "tcp3": [(realsocket.AF_INET6, "fd00::1"), (realsocket.AF_INET, "10.0.0.1"), (realsocket.AF_INET, "10.0.0.2")],
    "tls": [(realsocket.AF_INET, "10.0.0.1")],
}
# (no_delay, keepalive, timeouts)
OPTIONS = {
    "plain": dict(connect_timeout=3, timeout=7),
    "nodelay": dict(connect_timeout=3, timeout=7, no_delay=True),
    "keepalive": dict(connect_timeout=3, timeout=7, socket_keepalive=True),
    "notimeouts": dict(connect_timeout=None, timeout=None, no_delay=True),
    "conn-only": dict(connect_timeout=3, timeout=None),
    "io-only": dict(connect_timeout=None, timeout=7),
    "ignore_exc": dict(connect_timeout=3, timeout=7, ignore_exc=True),
}
TCP1_ONLY = ("keepalive", "notimeouts", "conn-only", "io-only")


def same_timeout(seen, configured):
    # a socket on which settimeout() was never called behaves as timeout=None
    return (None if seen == "unset" else seen) == configured


def configs(tier):
    out = []
    for tr in TRANSPORTS:
        for opt in OPTIONS:
            if tr in ("unix",) and opt in ("nodelay", "keepalive"):
                continue  # TCP-only options
            if tr in ("tcp2", "tcp3") and opt in TCP1_ONLY:
                continue
            if tr == "unix" and opt in ("conn-only", "io-only"):
                continue
            for stack in ("client", "pooled", "hash1"):
                if stack != "client" and opt in ("keepalive",):
                    continue
                out.append((tr, opt, stack))
    return out


def build(net, tr, opt, stack):
    kw = dict(OPTIONS[opt])
    if kw.pop("socket_keepalive", None):
        kw["socket_keepalive"] = KeepaliveOpts(idle=5, intvl=2, cnt=3)
    if tr == "unix":
        server = "/var/run/mc.sock"
        net.servers[("unix", server)] = net.add_server("placeholder", 1)
        del net.servers[("tcp", "placeholder", 1)]
    else:
        server = ("mc.example", 11211)
        srv = None
        for fam, ip in ADDRS[tr]:
            if srv is None:
                srv = net.add_server(ip, 11211)
            else:
                net.servers[("tcp", ip, 11211)] = srv
        net.hosts["mc.example"] = ADDRS[tr]
        if tr == "tls":
            kw["tls_context"] = net.tls()
    sm = net.module()
    if stack == "client":
        return Client(server, socket_module=sm, **kw), kw
    if stack == "pooled":
        return PooledClient(server, socket_module=sm, max_pool_size=2, **kw), kw
    return HashClient([server], socket_module=sm, **kw), kw


def run_history(ch, tr, opt, stack, seq):
    net = simnet.SimNet(chooser=ch, menu=simnet.MENU_LIFECYCLE, delivery="segment")
    net.owner_classes = (Client,)
    stacks.PROXY.current = net.clock
    obj, kw = build(net, tr, opt, stack)
    rec = []
    for i, op in enumerate(seq, 1):
        net.call = i
        p0 = len(ch.choices) if ch is not None else 0
        try:
            r = {"kind": "ret", "value": op.call(obj)}
        except Exception as e:
            r = {"kind": "exc", "value": e}
        r["p0"], r["p1"] = p0, len(ch.choices) if ch is not None else 0
        # sockets open at this boundary that are not their owner's current socket
        stray = []
        for s in net.open_sockets():
            o = s.owner
            if o is None or o.sock is not s:
                stray.append(s.sid)
        r["stray"] = stray
        r["nopen"] = len(net.open_sockets())
        r["leftovers"] = []
        r["used"] = 0
        rec.append(r)
    net.call = 0
    return net, obj, rec, kw


def judge(ch, net, obj, rec, kw, tr, opt, stack, seq):
    out = []
    labels = ch.labels if ch is not None else []
    # M1: never two open sockets per client object
    open_by_owner = {}
    owner_of = {}
    for ev in net.events:
        kind, sid = ev[2], ev[3]
        if kind == "socket":
            s = net.socks[sid]
            owner_of[sid] = id(s.owner)
            open_by_owner.setdefault(id(s.owner), set()).add(sid)
        elif kind == "wrap":
            inner = ev[4]
            o = owner_of.get(inner)
            owner_of[sid] = o
            st = open_by_owner.setdefault(o, set())
            st.discard(inner)
            st.add(sid)
        elif kind == "close":
            o = owner_of.get(sid)
            if o in open_by_owner:
                open_by_owner[o].discard(sid)
                # closing the raw socket under a wrapper does not close the wrapper's fd in our model
        else:
            continue
        o = owner_of.get(sid)
        if o in open_by_owner and len(open_by_owner[o]) > 1:
            out.append(("two-open-sockets", ev[1], f"during call {ev[1]} one client holds open sockets "
                        f"{sorted(open_by_owner[o])} at the same time"))
            break
    # M2: at call boundaries every open socket is its owner's current socket
    for i, r in enumerate(rec, 1):
        if r["stray"]:
            out.append(("socket-leaked", i, f"after call {i} ({seq[i-1].label}) socket(s) {r['stray']} are open "
                        f"but no longer referenced by the client that created them"))
            break
    # M3: after the final close() nothing is open
    if rec and rec[-1]["nopen"]:
        out.append(("open-after-close", len(rec), f"{rec[-1]['nopen']} socket(s) still open after close()"))
    # M4: timeouts in force
    for ev in net.events:
        kind = ev[2]
        if kind == "connect" or kind == "connect_fail":
            t = ev[-1]
            if not same_timeout(t, kw["connect_timeout"]):
                out.append(("connect-timeout", ev[1], f"connect() in call {ev[1]} ran under timeout {t!r}, "
                            f"configured connect_timeout is {kw['connect_timeout']!r}"))
                break
        elif kind in ("sendall", "recv", "sendall_fail", "recv_fail"):
            t = ev[-1]
            if not same_timeout(t, kw["timeout"]):
                out.append(("io-timeout", ev[1], f"{kind} in call {ev[1]} ran under timeout {t!r}, "
                            f"configured timeout is {kw['timeout']!r}"))
                break
    # M8: a socket the client has closed is never used again
    for ev in net.events:
        if ev[2].endswith("_on_closed"):
            out.append(("uses-a-closed-socket", ev[1], f"call {ev[1]}: {ev[2][:-10]}() on socket {ev[3]}, which the client had "
                        f"already closed (a socket abandoned during connection establishment is not to be used further)"))
            break
    # M5: TLS only through the wrapper
    if net.raw_io:
        call, sid, what = net.raw_io[0]
        out.append(("raw-io-under-tls", call, f"{what} on the unwrapped socket {sid} although a TLS context is configured"))
    # M6/M7: a call with a faultless environment (or whose only faults are socket() failures for
    # non-final resolved addresses) returns the right answer, whatever failed before
    naddr = len(ADDRS.get(tr, [1]))
    hard_before = False
    for i, r in enumerate(rec, 1):
        op = seq[i - 1]
        mine = [(k, l) for (pi, k, l) in labels if r["p0"] <= pi < r["p1"]]
        only_socket = mine and all(k == "socket" for k, l in mine) and len(mine) < naddr
        if op.name != "close" and (not mine or only_socket) and not (hard_before and stack == "hash1"):
            if r["kind"] != "ret":
                why = "the environment was faultless during it" if not mine else \
                    f"a socket could be created for resolved address #{len(mine)+1}"
                out.append(("fails-without-fault" if not mine else "no-address-fallback", i,
                            f"call {i} ({op.label}) raised {r['value']!r} although {why}"))
            else:
                outcomes = []
                for srv in set(net.servers.values()):
                    outcomes += [e[3] for e in srv.log if e[0] == i]
                try:
                    exp = ops.expected(op, outcomes, True, obj)
                except Exception:
                    exp = ops.Unknown(object)
                if not isinstance(exp, ops.Unknown) and exp != r["value"]:
                    out.append(("wrong-value", i, f"call {i} ({op.label}) returned {r['value']!r}, expected {exp!r}"))
        if mine:
            hard_before = True
    return out


def _jobs(tier):
    jobs = []
    n = len(OPS)
    for cfg in configs(tier):
        for i1 in range(n):
            jobs.append((cfg, i1, tier))
    return jobs


def _seqs(i1, tier, cfg=None):
    """(history, deviation bound)"""
    tr, opt, stack = cfg
    deep = opt in ("plain", "ignore_exc", "keepalive") and (stack == "client" or tr in ("tcp2", "tls"))
    for o2 in OPS:
        if tier == "quick":
            yield (OPS[i1], o2, CLOSE), (2 if deep else 1)
            if deep or stack == "client":
                for o3 in OPS:
                    yield (OPS[i1], o2, o3, CLOSE), 1
        else:
            yield (OPS[i1], o2, CLOSE), 3
            for o3 in OPS:
                yield (OPS[i1], o2, o3, CLOSE), 2


def _worker(job, chk):
    (tr, opt, stack), i1, tier = job
    for seq, bound in _seqs(i1, tier, (tr, opt, stack)):
        def run(ch, seq=seq):
            return run_history(ch, tr, opt, stack, seq)

        def on_exec(ch, res, seq=seq):
            net, obj, rec, kw = res
            chk.add()
            if ch.labels:
                chk.outcome((tr, opt, stack, tuple(o.name for o in seq), connoracle.devsig(ch),
                             connoracle.result_class(rec)))
                if len(chk.samples) < 1 and i1 == 1 and len(ch.labels) == bound:
                    chk.sample({"transport": tr, "options": opt, "stack": stack,
                                "history": [o.label for o in seq], "fault_plan": ch.plan(),
                                "results": [(r["kind"], connoracle.short(r["value"])) for r in rec]})
            bad = judge(ch, net, obj, rec, kw, tr, opt, stack, seq)
            if bad:
                clause, call, text = bad[0]
                sig = f"{clause}|{stack}|{tr}|{opt}|{connoracle.devsig(ch)}"
                if sig not in chk.violations:
                    _, r2 = explore.replay(run, ch.choices)
                    if r2[0].events != net.events:
                        raise runner.HarnessError("harness nondeterminism in C06")
                chk.violation(sig, text, {"transport": tr, "options": opt, "stack": stack,
                                          "history": [o.label for o in seq], "choices": list(ch.choices),
                                          "plan": ch.plan(), "all": [b[2] for b in bad]})

        explore.explore(run, bound, on_exec)
        chk.count("histories")


def _failover_worker(job, chk):
    """HashClient failover histories (the driver of C13's single-failure time grid: h1 fails at 0, recovers at
    `th`, operations on its key at every subset of <= 4 grid times), judged by C06's socket clauses: at every call
    boundary each open socket is the current socket of the client that opened it and that client is one the
    HashClient still holds; after close() nothing is open."""
    _, ra, ie, th, tier = job
    import itertools
    from checks import c13
    T = 12
    for size in range(1, 5 if tier == "quick" else 6):
        for st in itertools.combinations(range(0, T + 1), size):
            w = c13.World((2, ra, ie, "refused"))
            net, hc = w.net, w.hc
            w.apply(("fail", 0))
            now, healed, bad = 0, False, None
            for n, t in enumerate(st, 1):
                if t >= th and not healed:
                    w.apply(("adv", th - now))
                    now = th
                    w.apply(("heal", 0))
                    healed = True
                if t > now:
                    w.apply(("adv", t - now))
                    now = t
                w.op("get" if (t % 3) else "get_many", 0)
                held = {id(c) for c in stacks.inner_clients(hc)}
                for s in net.open_sockets():
                    o = s.owner
                    if o is None or o.sock is not s:
                        bad = ("socket-leaked", f"after operation {n} (time {t}) socket {s.sid} is open but is not the current socket of the client that opened it")
                    elif id(o) not in held:
                        bad = ("socket-of-abandoned-client", f"after operation {n} (time {t}) socket {s.sid} to {s.addr} is open and belongs to a client "
                               f"the HashClient no longer holds (nothing can close it)")
                if bad:
                    break
            if bad is None:
                try:
                    hc.close()
                except Exception:  # noqa
                    pass
                left = net.open_sockets()
                if left:
                    bad = ("open-after-close", f"{len(left)} socket(s) still open after close(): {[(s.sid, s.addr) for s in left]}")
            chk.add()
            chk.outcome(("failover", ra, ie, th, st))
            if bad:
                chk.violation(f"{bad[0]}|hash2|failover|retry_attempts={ra}",
                              f"HashClient([h1, h2], retry_attempts={ra}, retry_timeout=1, dead_timeout=6, ignore_exc={ie}): h1 refuses connections "
                              f"from 0 and recovers at {th}; operations on its key at times {list(st)}: {bad[1]}",
                              {"failover": [ra, ie, th, list(st)], "tier": tier})
    chk.count("failover_histories")


def _any_worker(job, chk):
    if job[0] == "failover":
        return _failover_worker(job, chk)
    return _worker(job, chk)


def run(chk):
    chk.rule = RULE
    chk.assumptions = ["simnet's socket model: a socket is open from socket() until close(); wrap_socket transfers the descriptor to the wrapper",
                       "every resolved address is served by the same reference server"]
    chk.info["deviation_bounds"] = ("2 deviations on op1;op2;close for the plain/ignore_exc/keepalive option sets on Client and on tcp2/tls, 1 elsewhere; 1 on op1;op2;op3;close" if chk.tier == "quick" else "3 on op1;op2;close + 2 on op1;op2;op3;close")
    chk.info["configurations"] = len(configs(chk.tier))
    fo = [("failover", ra, ie, th, chk.tier) for ra in (0, 1, 2) for ie in (False, True) for th in (1, 3, 5, 99)]
    runner.parallel(chk, _any_worker, _jobs(chk.tier) + fo)


def replay(detail):
    if detail.get("failover"):
        ra, ie, th, st = detail["failover"]
        tmp = runner.Check(PROPERTY, LEVEL, detail.get("tier", "quick"), 0)
        _failover_worker(("failover", ra, ie, th, detail.get("tier", "quick")), tmp)
        return [v["what"] for v in tmp.violations.values()]
    lab = {o.label: o for o in OPS + [CLOSE]}
    seq = [lab[l] for l in detail["history"]]
    tr, opt, stack = detail["transport"], detail["options"], detail["stack"]
    ch, (net, obj, rec, kw) = explore.replay(lambda c: run_history(c, tr, opt, stack, seq), detail["choices"])
    for ev in net.events:
        print("   ", ev)
    for i, r in enumerate(rec, 1):
        print(f"    call {i} {seq[i-1].label}: {r['kind']} {connoracle.short(r['value'])}")
    return [b[2] for b in judge(ch, net, obj, rec, kw, tr, opt, stack, seq)]
