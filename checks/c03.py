"""C03 - reply parsing does not depend on how the byte stream is split.

Bounded-exhaustive enumeration of segmentations: for every scenario of a corpus
(operation + faithful reply stream produced by the reference server) the real client
is run once per segmentation of the reply into recv() results (all 2^(n-1) for short
replies; all <=k-cut segmentations over a set of interesting cut positions for long
ones; all-single-byte; 4096-aligned) x EINTR placements; the result must equal the
unsegmented result and the value implied by the server's outcomes.
"""

from __future__ import annotations

import errno
import itertools

from pymemcache.client.base import Client

from vmc import ops, runner, stacks
from vmc.ops import Op
from vmc.strictparse import parse_all

PROPERTY = "C03"
LEVEL = "exploration"
RULE = (
    "cases = scenario x segmentation x EINTR placement; segmentations: every subset of cut "
    "positions for replies <= 16 (thorough 20) bytes, every <=K-cut subset (K=3, thorough 4; one less "
    "when there are > 40 positions) of 'interesting' positions (all "
    "positions for replies <= 48 bytes; else first/last bytes, +-2 around every CR LF (first 8), "
    "+-2 around multiples of 4096) otherwise, plus all-single-byte; non-trivial = at least one "
    "cut or EINTR; distinct = distinct (scenario, piece-length tuple, eintr set)"
)


class SegSocket:
    def __init__(self, stream, cuts, eintr):
        self.pieces = []
        last = 0
        for c in cuts:
            self.pieces.append(stream[last:c])
            last = c
        self.pieces.append(stream[last:])
        self.i = 0
        self.eintr = {}
        for i in eintr:  # a piece index may be listed several times: that many EINTRs in a row
            self.eintr[i] = self.eintr.get(i, 0) + 1
        self.sent = b""
        self.closed = False
        self.overrun = False

    def setsockopt(self, *a):
        pass

    def settimeout(self, t):
        pass

    def connect(self, addr):
        pass

    def sendall(self, data):
        self.sent += data

    def recv(self, n):
        if self.eintr.get(self.i):
            self.eintr[self.i] -= 1
            raise OSError(errno.EINTR, "Interrupted system call")
        if self.i >= len(self.pieces):
            self.overrun = True  # the client asked for more than the server sent
            raise TimeoutError("timed out")
        p = self.pieces[self.i]
        if len(p) > n:
            self.pieces[self.i] = p[n:]
            return p[:n]
        self.i += 1
        return p

    def close(self):
        self.closed = True


class SegModule:
    AF_UNIX = 1
    SOCK_STREAM = 1

    def __init__(self, stream, cuts, eintr):
        self.args = (stream, cuts, eintr)
        self.sock = None

    def socket(self, *a):
        self.sock = SegSocket(*self.args)
        return self.sock


BIG = bytes((i * 7 + 3) % 251 for i in range(9000))


def _val(n):
    return BIG[:n]


def scenarios():
    """(name, preload commands, op, client kwargs)"""
    S = []

    def setcmd(k, v, flags=0):
        return b"set " + k + b" " + str(flags).encode() + b" 0 " + str(len(v)).encode() + b"\r\n" + v + b"\r\n"

    tricky = [b"", b"x", b"\r\n", b"END\r\n", b"VALUE k 0 1\r\nz\r\nEND\r\n", b"a\rb\nc\r\n\r", b"\r", b"\n"]
    for i, v in enumerate(tricky):
        S.append((f"get-tricky{i}", setcmd(b"k", v), Op("get", "k"), {}))
    for i, v in enumerate(tricky[:5]):
        S.append((f"gets-tricky{i}", setcmd(b"k", v, 5), Op("gets", "k"), {}))
    S.append(("gat-hit", setcmd(b"k", b"va\r\nlue"), Op("gat", "k", expire=10), {}))
    S.append(("gats-hit", setcmd(b"k", b"va\r\nlue"), Op("gats", "k", expire=10), {}))
    S.append(("get-miss", b"", Op("get", "k"), {}))
    S.append(("gets-miss", b"", Op("gets", "k"), {}))
    for n in (4094, 4095, 4096, 4097, 4098, 8192):
        S.append((f"get-size{n}", setcmd(b"k", _val(n)), Op("get", "k"), {}))
    S.append(("get_many-2", setcmd(b"k", b"1\r\n") + setcmd(b"m", b"END"), Op("get_many", ["k", "m", "zz"]), {}))
    S.append(("get_many-3", setcmd(b"k", b"") + setcmd(b"m", b"\r") + setcmd(b"n", b"\nVALUE"),
              Op("get_many", ["k", "m", "n"]), {}))
    S.append(("gets_many-2", setcmd(b"k", b"1") + setcmd(b"m", b"22"), Op("gets_many", ["m", "k"]), {}))
    S.append(("get_many-big", setcmd(b"k", _val(4090)) + setcmd(b"m", _val(4100)), Op("get_many", ["k", "m"]), {}))
    LK = b"L" * 180 + b"-key"
    S.append(("get-longkey", setcmd(LK, b"v1"), Op("get", LK), {}))
    S.append(("gets_many-longkeys", setcmd(LK, b"v1") + setcmd(LK + b"2", b""), Op("gets_many", [LK, LK + b"2"]), {}))
    S.append(("stats", b"", Op("stats"), {}))
    S.append(("stats-args", b"", Op("stats", "settings"), {}))
    for name in ("set", "add", "replace", "append", "prepend"):
        S.append((f"{name}-hit", setcmd(b"k", b"1"), Op(name, "k", b"v", noreply=False), {}))
        S.append((f"{name}-miss", b"", Op(name, "k", b"v", noreply=False), {}))
    S.append(("cas-stored", setcmd(b"k", b"1"), Op("cas", "k", b"v", b"1", noreply=False), {}))
    S.append(("cas-exists", setcmd(b"k", b"1"), Op("cas", "k", b"v", b"99", noreply=False), {}))
    S.append(("cas-notfound", b"", Op("cas", "k", b"v", b"1", noreply=False), {}))
    S.append(("set_many-3", setcmd(b"k", b"1"), Op("set_many", {"k": b"1", "m": b"2", "n": b"3"}, noreply=False), {}))
    S.append(("delete-hit", setcmd(b"k", b"1"), Op("delete", "k", noreply=False), {}))
    S.append(("delete-miss", b"", Op("delete", "k", noreply=False), {}))
    S.append(("delete_many", setcmd(b"k", b"1"), Op("delete_many", ["k", "m"], noreply=False), {}))
    S.append(("incr", setcmd(b"k", b"18446744073709551614"), Op("incr", "k", 1, noreply=False), {}))
    S.append(("decr", setcmd(b"k", b"10"), Op("decr", "k", 1, noreply=False), {}))
    S.append(("incr-miss", b"", Op("incr", "k", 1, noreply=False), {}))
    S.append(("touch-hit", setcmd(b"k", b"1"), Op("touch", "k", 10, noreply=False), {}))
    S.append(("touch-miss", b"", Op("touch", "k", 10, noreply=False), {}))
    S.append(("version", b"", Op("version"), {}))
    S.append(("flush_all", b"", Op("flush_all", noreply=False), {}))
    S.append(("cache_memlimit", b"", Op("cache_memlimit", 10), {}))
    S.append(("raw-default", b"", Op("raw_command", b"version"), {}))
    S.append(("raw-END", setcmd(b"k", b"ab\r\ncd"), Op("raw_command", b"get k", end_tokens=b"END\r\n"), {}))
    # replies whose total length is an exact multiple of the receive size: the recv() result that completes
    # the end token is a full-size one
    for total in (4096, 8192):
        for L in range(total - 40, total):
            if len(b"VALUE k 0 %d\r\n" % L) + L + len(b"\r\nEND\r\n") == total:
                S.append((f"raw-aligned{total}", setcmd(b"k", _val(L)), Op("raw_command", b"get k", end_tokens=b"END\r\n"), {}))
                S.append((f"get-aligned{total}", setcmd(b"k", _val(L)), Op("get", "k"), {}))
                S.append((f"raw-aligned{total}-crlf", setcmd(b"k", _val(L)), Op("raw_command", b"get k", end_tokens=b"\r\nEND\r\n"), {}))
    # the end token occurs more than once in what the server sends: the segment ends at its FIRST occurrence
    S.append(("raw-token-twice", setcmd(b"k", b"xEND\r\ny"), Op("raw_command", b"get k", end_tokens=b"END\r\n"), {}))
    S.append(("raw-token-thrice", setcmd(b"k", b"ab;cd;ef"), Op("raw_command", b"get k", end_tokens=b";"), {}))
    S.append(("raw-default-multiline", setcmd(b"k", b"l1\r\nl2"), Op("raw_command", b"get k"), {}))
    S.append(("raw-onebyte", b"", Op("raw_command", b"version", end_tokens=b"\n"), {}))
    S.append(("raw-overlap", setcmd(b"k", b"aaaab-tail"), Op("raw_command", b"get k", end_tokens=b"aab"), {}))
    S.append(("raw-overlap2", setcmd(b"k", b"ababac"), Op("raw_command", b"get k", end_tokens=b"abac"), {}))
    S.append(("raw-keyword-ERROR", setcmd(b"k", b"x\r\nERROR: oops!"), Op("raw_command", b"get k", end_tokens=b"END\r\n"), {}))
    S.append(("raw-keyword-SERVER_ERROR", setcmd(b"k", b"SERVER_ERROR y\r\nCLIENT_ERROR z"), Op("raw_command", b"get k", end_tokens=b"\r\nEND\r\n"), {}))
    S.append(("get-keyword-value", setcmd(b"k", b"ERROR\r\nEND\r\nVALUE"), Op("get", "k"), {}))
    S.append(("raw-str-token", b"", Op("raw_command", "version", end_tokens="\r\n"), {}))
    S.append(("raw-config", b"", Op("raw_command", b"config get cluster", end_tokens=b"\n\r\nEND\r\n"), {}))
    return S


def baseline(scn):
    """Run once through simnet + reference server; returns (stream, result, outcomes, op, kwargs)."""
    name, pre, op, kw = scn
    net = stacks.new_net(servers=())
    srv = net.add_server("h1", 11211, cluster=(12, [("n1.example.com", "10.0.0.1", 11211),
                                                     ("n2.example.com", "10.0.0.2", 11212)]))
    items, rest = parse_all(pre)
    assert not rest
    for it in items:
        srv.execute(it)
    c = Client(stacks.H1, socket_module=net.module(), **kw)
    net.call = 1
    res = op.call(c)
    stream = b"".join(d for (_, _, d) in net.rx)
    outcomes = [e[3] for e in srv.log if e[0] == 1]
    return stream, res, outcomes


def run_seg(scn, stream, cuts, eintr):
    name, pre, op, kw = scn
    mod = SegModule(stream, cuts, eintr)
    c = Client("/sock", socket_module=mod, **kw)
    try:
        return ("ret", op.call(c)), mod.sock
    except Exception as e:  # noqa
        return ("exc", f"{type(e).__name__}: {e}"), mod.sock


def interesting(stream):
    n = len(stream)
    if n <= 48:
        return list(range(1, n))
    pos = set(range(1, 4)) | set(range(n - 8, n))
    start = 0
    for _ in range(8):
        p = stream.find(b"\r\n", start)
        if p == -1:
            break
        pos |= {p - 1, p, p + 1, p + 2, p + 3}
        start = p + 2
    p = stream.rfind(b"\r\n", 0, n - 7)
    if p != -1:
        pos |= {p - 1, p, p + 1, p + 2, p + 3}
    for m in range(4096, n + 1, 4096):
        pos |= {m - 2, m - 1, m, m + 1, m + 2}
    return sorted(x for x in pos if 0 < x < n)


def segmentations(stream, tier):
    n = len(stream)
    K = 3 if tier == "quick" else 4
    if n <= (16 if tier == "quick" else 20):
        allpos = list(range(1, n))
        for k in range(0, n):
            yield from itertools.combinations(allpos, k)
        return
    pos = interesting(stream)
    if len(pos) > 40:
        K -= 1  # long multi-line replies: one cut fewer keeps the enumeration affordable
    for k in range(0, K + 1):
        yield from itertools.combinations(pos, k)
    yield tuple(range(1, n))  # all single bytes


def eintr_sets(npieces, ncuts, tier):
    yield ()
    lim = 2 if tier == "quick" else 3
    if ncuts <= lim:
        for i in range(npieces):
            yield (i,)
            yield (i, i)
            yield (i, i, i)
        if npieces > 1:
            yield tuple(range(npieces))
            yield tuple(range(npieces)) * 2


def _worker(job, chk):
    idx, tier = job
    scn = scenarios()[idx]
    name, pre, op, kw = scn
    try:
        stream, res, outcomes = baseline(scn)
    except Exception as e:  # noqa - the reference run delivers the reply undivided; failing on it is a verdict
        chk.add()
        chk.violation(f"undivided-reply-not-parsed|{op.name}|{name}",
                      f"{op.label}: with the whole reply delivered by one recv() the call raised {type(e).__name__}: {e} "
                      f"(the reference server had answered every command)", {"scenario": name, "cuts": [], "eintr": []})
        return
    # absolute expectation from the server's own outcomes
    try:
        exp = ops.expected(op, outcomes, True, None) if op.name != "raw_command" else None
    except Exception:
        exp = None
    if exp is not None and not isinstance(exp, ops.Unknown) and (exp != res or type(exp) is not type(res)):
        chk.violation(f"absolute|{op.name}|{name}", f"{op.label}: unsegmented result {res!r} != value implied "
                      f"by the server's outcomes {exp!r}", {"scenario": name, "cuts": [], "eintr": []})
    base, sock = run_seg(scn, stream, (), ())
    chk.add()
    if base != ("ret", res):
        chk.violation(f"baseline|{op.name}|{name}", f"{op.label}: whole-stream delivery gives {base!r}, "
                      f"reference run gave {res!r}", {"scenario": name, "cuts": [], "eintr": []})
    nseg = 0
    for cuts in segmentations(stream, tier):
        for ei in eintr_sets(len(cuts) + 1, len(cuts), tier):
            if not cuts and not ei:
                continue
            got, sock = run_seg(scn, stream, cuts, ei)
            chk.add()
            nseg += 1
            lens = tuple(b - a for a, b in zip((0,) + cuts, cuts + (len(stream),)))
            chk.outcome((name, lens if len(lens) < 8 else hash(lens), ei if len(ei) < 8 else len(ei)))
            if got == base and got[0] == "ret" and op.name != "raw_command" and not sock.closed and sock.i < len(sock.pieces):
                # the call returned, but part of its reply was never read from the socket: the next call
                # on this connection would start in the middle of this one's reply
                left = b"".join(sock.pieces[sock.i:])
                chk.violation(
                    f"segmentation|{op.name}|{name}|reply-tail-left-unread",
                    f"{op.label} on reply {stream[:60]!r}{'...' if len(stream) > 60 else ''} cut at {list(cuts)[:12]} returned "
                    f"{connshort(got)} but left {left[:20]!r} of its own reply unread on the connection",
                    {"scenario": name, "cuts": list(cuts), "eintr": list(ei)})
            if got != base:
                kind = _classify(cuts, ei, stream)
                chk.violation(
                    f"segmentation|{op.name}|{name}|{kind}",
                    f"{op.label} on reply {stream[:60]!r}{'...' if len(stream) > 60 else ''} cut at "
                    f"{list(cuts)[:12]} (EINTR before pieces {list(ei)[:6]}) gives {connshort(got)}, "
                    f"whole delivery gives {connshort(base)}",
                    {"scenario": name, "cuts": list(cuts), "eintr": list(ei)})
    chk.count("scenarios")
    chk.maximum("max_reply_bytes", len(stream))
    if idx in (0, 5, 42):
        chk.sample({"scenario": name, "op": op.label, "reply": stream[:80], "reply_len": len(stream),
                    "segmentations_run": nseg, "example_cuts": list(cuts)[:6]})


def _classify(cuts, ei, stream):
    if ei and not cuts:
        return "eintr-only"
    k = len(cuts)
    return ("eintr+" if ei else "") + (f"{k}cut" if k <= 3 else "manycuts")


def connshort(v):
    r = repr(v)
    return r if len(r) < 90 else r[:87] + "..."


def run(chk):
    chk.rule = RULE
    chk.assumptions = ["reply streams are those of the reference server (vmc/modelserver.py)",
                       "recv(n) never returns more than n bytes; up to 3 consecutive EINTRs before a piece"]
    jobs = [(i, chk.tier) for i in range(len(scenarios()))]
    chk.info["max_cuts_long_replies"] = 3 if chk.tier == "quick" else 4
    runner.parallel(chk, _worker, jobs)


def replay(detail):
    scn = next(s for s in scenarios() if s[0] == detail["scenario"])
    try:
        stream, res, outcomes = baseline(scn)
    except Exception as e:  # noqa
        return [f"{scn[2].label}: the undivided reply is not parsed: {type(e).__name__}: {e}"]
    base, _ = run_seg(scn, stream, (), ())
    got, sock = run_seg(scn, stream, tuple(detail["cuts"]), tuple(detail["eintr"]))
    print("    stream:", stream[:200])
    print("    whole :", connshort(base))
    print("    cut   :", connshort(got))
    out = [] if got == base == ("ret", res) else [f"{scn[2].label}: {connshort(got)} != {connshort(base)}"]
    if not out and scn[2].name != "raw_command" and not sock.closed and sock.i < len(sock.pieces):
        out.append(f"{scn[2].label}: returned but left {b''.join(sock.pieces[sock.i:])[:20]!r} of its reply unread")
    return out
