"""C14 - murmur3_32 equals the reference MurmurHash3 x86_32.

Bounded-exhaustive enumeration of inputs (no sampling):

  full     every string of length 0..2 (thorough: 0..3) over the whole byte alphabet
  alpha    every string of length 3..5 (thorough: 3..7) over {00 01 7f 80 ff 61}
  struct   for every length 0..64 (thorough: 0..256), i.e. every tail length and block count in
           that range: eight fill patterns and six "one odd byte at position p" families for every
           p (thorough also: every byte value at every position for lengths <= 16, three fills)
  long     the eight fill patterns at lengths 2^k-1 .. 2^k+3 for 2^k in {128, 256, 1024, 4096, 65536}
           (thorough: + 512, 2^17), i.e. every tail length around each power of two.  (The implementation
           never reduces h1 inside the block loop, so its cost grows quadratically with the length;
           that is why this family stops where it does.)
  vectors  the thirteen published SMHasher-derived vectors, twelve text vectors, and SMHasher's
           verification constant 0xB0F57EE3 computed through the implementation
  nonbyte  strings with code points above 255 (second clause: deterministic, 32-bit): twice in
           this process on equal-but-distinct str objects, and in two further interpreter
           processes started with other PYTHONHASHSEED values

each under 36 seeds {0, 2^32-1, 2^31-1, 0x9747b28c, the 32 one-bit seeds} (the length-3 full
alphabet, the long and the every-value-at-every-position families under {0, 1, 2^31, 2^32-1}).

Oracle: two references written without looking at pymemcache (vmc/ref/murmur3_ref.c with native
uint32_t through ctypes; vmc/ref/murmur3.py over struct '<I' words, reduced mod 2^32 after every
operation).  They are compared with each other on every case (a disagreement is a harness error,
never a verdict) and with the published vectors.
"""

from __future__ import annotations

import itertools
import json
import os
import subprocess
import sys

from pymemcache.client.murmur3 import murmur3_32

from vmc import runner
from vmc.ref import murmur3 as ref

PROPERTY = "C14"
LEVEL = "exploration"
RULE = (
    "cases = (string, seed); strings: all of length 0..2 (thorough 0..3) over the full byte alphabet, all of "
    "length 3..5 (thorough 3..7) over {00,01,7f,80,ff,61}, for every length 0..64 (thorough 0..256) eight "
    "fill patterns + six one-odd-byte-at-every-position families (thorough: + every byte value at every "
    "position for lengths <= 16), the fill patterns at lengths 2^k-1..2^k+3 up to 65536 (thorough 2^17), published vectors, strings with code points > 255 (lengths 1..3 over a "
    "10-letter alphabet, one wide character at every position of lengths 1..64); seeds: 36 (0, 2^32-1, "
    "2^31-1, 0x9747b28c, 32 one-bit seeds) or the 4 core seeds for the largest families; every case is "
    "evaluated by the implementation and by both references; non-trivial = every case except ('' , seed 0); "
    "distinct = distinct (length, seed, top four bits of the reference value) - i.e. how many different "
    "(shape, result region) combinations the oracle was actually exercised on"
)

SEEDS_CORE = [0, 1, 2**31, 2**32 - 1]
SEEDS = sorted(set(SEEDS_CORE) | {1 << k for k in range(32)} | {0x7FFFFFFF, 0x9747B28C})
ALPHA6 = bytes([0x00, 0x01, 0x7F, 0x80, 0xFF, 0x61])
NB_ALPHA = [0x61, 0xFF, 0x100, 0x101, 0x17F, 0x3B1, 0xD800, 0xFFFF, 0x10000, 0x10FFFF]
XPROC_HASHSEEDS = ("1", "4242")


def impl_bytes(b: bytes, seed: int):
    return murmur3_32(b.decode("latin-1"), seed)


def shown(fn, *a):
    """Value for a written-out sample; a sample must never abort the run."""
    try:
        return fn(*a)
    except Exception as e:  # noqa
        return f"raises {type(e).__name__}"


# ---------------------------------------------------------------------------
# input families


def fills(L):
    return [
        bytes(L),
        b"\xff" * L,
        b"\x80" * L,
        b"\x7f" * L,
        bytes(i & 0xFF for i in range(L)),
        bytes((0x80 + i) & 0xFF for i in range(L)),
        bytes((0xFF - i) & 0xFF for i in range(L)),
        bytes((i * 37 + 11) & 0xFF for i in range(L)),
    ]


ODD = [(0x00, 0xFF), (0x00, 0x80), (0x00, 0x01), (0xFF, 0x00), (0xFF, 0x7F), (0x61, 0x80)]


def struct_inputs(L):
    out = fills(L) if L else [b""]
    for base, v in ODD:
        row = bytes([base]) * L
        for p in range(L):
            out.append(row[:p] + bytes([v]) + row[p + 1:])
    return out


def long_lengths(tier):
    """Lengths around powers of two (a length or block count kept in too few bits), fills only."""
    tops = (127, 255, 1023, 4095, 65535) if tier == "quick" else (127, 255, 511, 1023, 4095, 65535, 131071)
    return [n for t in tops for n in (t, t + 1, t + 2, t + 3, t + 4) if tier != "quick" or n > 64]


def every_value_inputs(L):
    out = []
    for base in (0x00, 0xFF, 0x61):
        row = bytes([base]) * L
        for p in range(L):
            for v in range(256):
                if v != base:
                    out.append(row[:p] + bytes([v]) + row[p + 1:])
    return out


def nonbyte_corpus(tier):
    """Ordered list of strings containing at least one code point > 255."""
    out = []
    for L in range(1, 4 if tier == "quick" else 5):
        for cps in itertools.product(NB_ALPHA, repeat=L):
            if max(cps) > 255:
                out.append("".join(map(chr, cps)))
    for L in range(1, 65):
        for wide in (0x100, 0xFFFF, 0x10FFFF):
            for p in range(L):
                out.append("a" * p + chr(wide) + "a" * (L - p - 1))
    return out


# ---------------------------------------------------------------------------
# evaluation


def sig_of(b: bytes, seed: int) -> str:
    nb = len(b) // 4
    return "value|tail=%d|blocks=%s|byte>=0x80=%s|seed>=2^31=%s" % (
        len(b) % 4, "0" if nb == 0 else "1" if nb == 1 else "2+",
        "y" if any(x >= 0x80 for x in b) else "n", "y" if seed >= 2**31 else "n")


def show(b: bytes) -> str:
    s = b.decode("latin-1")
    return repr(s) if len(s) <= 48 else f"{s[:24]!r}...{s[-8:]!r} ({len(s)} chars)"


def judge(chk, b: bytes, seed: int, exp: int, got, note="", fill=None):
    """got = ('ret', v) | ('exc', e)"""
    detail = {"codepoints": list(b), "seed": seed}
    if fill is not None:  # long inputs are recorded by their construction, not byte by byte
        detail = {"fill": fill, "length": len(b), "seed": seed}
    if got[0] == "exc":
        e = got[1]
        chk.violation(
            "raises|%s|tail=%d" % (type(e).__name__, len(b) % 4),
            f"murmur3_32({show(b)}, {seed:#x}) raised {type(e).__name__}: {e}", detail)
        return
    v = got[1]
    if type(v) is not int:
        chk.violation(f"type|{type(v).__name__}",
                      f"murmur3_32({show(b)}, {seed:#x}) returned {v!r} of type "
                      f"{type(v).__name__}, not int", detail)
    elif v != exp:
        chk.violation(
            sig_of(b, seed),
            f"murmur3_32({show(b)}, seed={seed:#x}) = {v:#x}, MurmurHash3_x86_32 = {exp:#010x} "
            f"(C and struct references agree){note}", detail)


def eval_batch(chk, inputs, seeds, tag, fill=None):
    """inputs: list of bytes, all of one length (fill: index into fills() when there is one long input)."""
    if not inputs:
        return
    L = len(inputs[0])
    ns = len(seeds)
    cvals = ref.c_batch(b"".join(inputs), L, len(inputs), seeds)
    py_ref = ref.py_ref
    classes = chk.classes
    f = murmur3_32
    k = 0
    for b in inputs:
        s = b.decode("latin-1")
        for seed in seeds:
            exp = cvals[k]
            k += 1
            if py_ref(b, seed) != exp:
                raise runner.HarnessError(
                    f"the two references disagree on {b!r} seed {seed:#x}: C {exp:#x}, struct {py_ref(b, seed):#x}")
            try:
                got = f(s, seed)
            except Exception as e:  # noqa
                judge(chk, b, seed, exp, ("exc", e), fill=fill)
                continue
            if got != exp or type(got) is not int:
                judge(chk, b, seed, exp, ("ret", got), fill=fill)
            if L or seed:
                classes.add((L, seed, exp >> 28))
    chk.add(k)
    chk.count("byte_string_cases", k)
    chk.count("byte_strings_" + tag, len(inputs))
    chk.maximum("max_length", L)


def check_nonbyte(chk, s, seed):
    """Second clause on one string with a code point > 255; returns the value or 'exc:..'."""
    detail = {"codepoints": [ord(c) for c in s], "seed": seed}
    twin = "".join(list(s))  # equal, distinct object (no cached state can be shared)
    try:
        v1 = murmur3_32(s, seed)
        v2 = murmur3_32(twin, seed)
    except Exception as e:  # noqa
        chk.violation(f"nonbyte-raises|{type(e).__name__}",
                      f"murmur3_32({s!r}, {seed:#x}) raised {type(e).__name__}: {e}; the statement promises "
                      f"a deterministic 32-bit value for any string", detail)
        return "exc:" + type(e).__name__
    if type(v1) is not int or not 0 <= v1 < 2**32:
        chk.violation("nonbyte-not-32-bit",
                      f"murmur3_32({s!r}, {seed:#x}) = {v1!r}: not an int in 0..2^32-1", detail)
    elif v1 != v2 or type(v2) is not int:
        chk.violation("nonbyte-nondeterministic|same-process",
                      f"murmur3_32({s!r}, {seed:#x}) gave {v1!r} then {v2!r} in one process", detail)
    return v1


NB_PARTS = 16


def nonbyte_part(tier, part):
    return nonbyte_corpus(tier)[part::NB_PARTS]


def nonbyte_values(tier, part, chk=None):
    vals = []
    fresh = chk if chk is not None else runner.Check(PROPERTY, LEVEL, tier, 0)
    for s in nonbyte_part(tier, part):
        for seed in SEEDS:
            v = check_nonbyte(fresh, s, seed)
            vals.append(v)
            if chk is not None:
                chk.add()
                if isinstance(v, int):
                    chk.classes.add(("nonbyte", len(s), seed, (v >> 28) & 15))
    if chk is not None:
        chk.count("nonbyte_cases", len(vals))
    return vals


def child_values(tier, part, hashseed):
    """The same part of the corpus evaluated by a fresh interpreter with another PYTHONHASHSEED."""
    env = dict(os.environ, PYTHONHASHSEED=hashseed, PYTHONDONTWRITEBYTECODE="1",
               C14_CHILD_REPO=runner.repo_dir(), C14_CHILD_VERIF=runner.VERIF_DIR, C14_CHILD_TIER=tier,
               C14_CHILD_PART=str(part))
    code = ("import os,sys; sys.path[:0]=[os.environ['C14_CHILD_REPO'], os.environ['C14_CHILD_VERIF']]; "
            "from checks import c14; c14._child()")
    r = subprocess.run([sys.executable, "-c", code], env=env, capture_output=True, text=True)
    if r.returncode != 0:
        raise runner.HarnessError(f"C14 child interpreter failed: {r.stderr[-800:]}")
    return json.loads(r.stdout)


def _child():
    import pymemcache

    f = os.path.realpath(pymemcache.__file__)
    if not f.startswith(os.path.realpath(os.environ["C14_CHILD_REPO"]) + os.sep):
        sys.exit(f"child imported pymemcache from {f}")
    json.dump(nonbyte_values(os.environ["C14_CHILD_TIER"], int(os.environ["C14_CHILD_PART"])), sys.stdout)


# ---------------------------------------------------------------------------
# jobs


def _jobs(tier):
    jobs = [("vectors",)] + [("nonbyte", i) for i in range(NB_PARTS)]
    jobs += [("full", 0, 0), ("full", 1, 0)] + [("full", 2, a) for a in range(0, 256, 16)]
    if tier != "quick":
        jobs += [("full3", a) for a in range(256)]
    for L in range(3, 6 if tier == "quick" else 8):
        jobs += [("alpha", L, a) for a in range(6)]
    top = 64 if tier == "quick" else 256
    jobs += [("struct", L) for L in range(top, -1, -1)]
    jobs = [("long", L, i) for L in long_lengths(tier) if L > 4000 for i in range(8)][::-1] + jobs
    jobs += [("long", L, None) for L in long_lengths(tier) if L <= 4000]
    if tier != "quick":
        jobs += [("everyvalue", L) for L in range(1, 17)]
    return jobs


def _worker(job, chk):
    kind = job[0]
    if kind == "full":
        L, a = job[1], job[2]
        if L == 0:
            inputs = [b""]
        elif L == 1:
            inputs = [bytes([x]) for x in range(256)]
        else:
            inputs = [bytes([x, y]) for x in range(a, a + 16) for y in range(256)]
        eval_batch(chk, inputs, SEEDS, "full_alphabet")
        if L == 2 and a == 0x80:
            b = inputs[0x7F]
            chk.sample({"input": b, "seed": SEEDS[-1], "murmur3_32": shown(impl_bytes, b, SEEDS[-1]),
                        "c_ref": ref.c_ref(b, SEEDS[-1]), "struct_ref": ref.py_ref(b, SEEDS[-1])})
    elif kind == "full3":
        a = job[1]
        inputs = [bytes([a, y, z]) for y in range(256) for z in range(256)]
        eval_batch(chk, inputs, SEEDS_CORE, "full_alphabet")
    elif kind == "alpha":
        L, a = job[1], job[2]
        inputs = [bytes([ALPHA6[a]]) + bytes(t) for t in itertools.product(ALPHA6, repeat=L - 1)]
        eval_batch(chk, inputs, SEEDS, "reduced_alphabet")
        if L == 5 and a == 4:
            b = inputs[-2]
            chk.sample({"input": b, "seed": 2**31, "murmur3_32": shown(impl_bytes, b, 2**31),
                        "c_ref": ref.c_ref(b, 2**31), "struct_ref": ref.py_ref(b, 2**31)})
    elif kind == "struct":
        L = job[1]
        eval_batch(chk, struct_inputs(L), SEEDS, "structured")
        if L in (7, 64):
            b = struct_inputs(L)[5]
            chk.sample({"input": b, "length": L, "seed": 1, "murmur3_32": shown(impl_bytes, b, 1),
                        "c_ref": ref.c_ref(b, 1), "struct_ref": ref.py_ref(b, 1)})
    elif kind == "long":
        fs = fills(job[1])
        for i in (range(len(fs)) if job[2] is None else [job[2]]):
            eval_batch(chk, [fs[i]], SEEDS_CORE, "long", fill=i)
    elif kind == "everyvalue":
        eval_batch(chk, every_value_inputs(job[1]), SEEDS_CORE, "every_value_every_position")
    elif kind == "vectors":
        for b, seed, exp in ref.VECTORS:
            c, p = ref.c_ref(b, seed), ref.py_ref(b, seed)
            if not c == p == exp:
                raise runner.HarnessError(f"reference vs published vector {b!r} seed {seed:#x}: "
                                          f"C {c:#x}, struct {p:#x}, published {exp:#x}")
            try:
                got = ("ret", impl_bytes(b, seed))
            except Exception as e:  # noqa
                got = ("exc", e)
            chk.add()
            chk.count("published_vectors")
            chk.classes.add(("vector", len(b), seed, exp >> 28))
            if got != ("ret", exp) or type(got[1]) is not int:
                judge(chk, b, seed, exp, got, note=" [published vector]")
        for fn in (ref.c_ref, ref.py_ref):
            if ref.smhasher_verification(fn) != ref.SMHASHER_VERIFICATION:
                raise runner.HarnessError("a reference does not reproduce SMHasher's verification constant")
        try:
            v = ref.smhasher_verification(impl_bytes)
        except Exception as e:  # noqa
            v = f"{type(e).__name__}: {e}"
        chk.add(257)
        chk.count("smhasher_verification_runs")
        if v != ref.SMHASHER_VERIFICATION:
            chk.violation("smhasher-verification-constant",
                          f"SMHasher VerificationTest through murmur3_32 gives {v if isinstance(v, str) else hex(v)}, "
                          f"published constant for MurmurHash3_x86_32 is 0xB0F57EE3", {"smhasher": True})
        chk.sample({"published_vector": "The quick brown fox jumps over the lazy dog", "seed": 0x9747B28C,
                    "expected": 0x2FA826CD,
                    "murmur3_32": shown(murmur3_32, "The quick brown fox jumps over the lazy dog", 0x9747B28C)})
    elif kind == "nonbyte":
        part = job[1]
        mine = nonbyte_values(chk.tier, part, chk)
        corpus = nonbyte_part(chk.tier, part)
        ns = len(SEEDS)
        for hs in XPROC_HASHSEEDS:
            theirs = child_values(chk.tier, part, hs)
            if len(mine) != len(theirs):
                raise runner.HarnessError("child enumerated a different corpus")
            chk.add(len(theirs))
            chk.count("cross_process_comparisons", len(theirs))
            for i, (a, b) in enumerate(zip(mine, theirs)):
                if a != b:
                    s, seed = corpus[i // ns], SEEDS[i % ns]
                    chk.violation("nonbyte-nondeterministic|across-processes",
                                  f"murmur3_32({s!r}, {seed:#x}) = {a!r} in this process, {b!r} in an interpreter "
                                  f"started with PYTHONHASHSEED={hs}",
                                  {"codepoints": [ord(c) for c in s], "seed": seed, "hashseed": hs})
        if part == 0:
            s = "a\u0100\U0010ffff"
            chk.sample({"non_byte_string_codepoints": [ord(c) for c in s], "seed": 0,
                        "murmur3_32": shown(murmur3_32, s, 0),
                        "oracle": "equal across calls and across interpreter processes; int in 0..2^32-1"})
    else:
        raise runner.HarnessError(f"unknown job {job!r}")


def run(chk):
    chk.rule = RULE
    chk.assumptions = [
        "a 'string of code points 0..255 taken as bytes' is a str s with s.encode('latin-1') the byte input; "
        "seeds are ints in 0..2^32-1 passed positionally",
        "'every 32-bit seed' is covered by 36 seeds (0, 2^32-1, 2^31-1, 0x9747b28c and every one-bit seed), "
        "'random content' by structured contents for every length; strings of 4 bytes and more are not "
        "enumerated over the full alphabet",
        "gcc's uint32_t arithmetic and CPython's struct/int are trusted; the two references are compared on "
        "every case and against 25 published vectors and SMHasher's verification constant",
        "determinism across processes is observed for two further PYTHONHASHSEED values on this machine only",
    ]
    chk.info["seeds"] = len(SEEDS)
    chk.info["seeds_core"] = len(SEEDS_CORE)
    runner.parallel(chk, _worker, _jobs(chk.tier))


def replay(detail):
    if detail.get("smhasher"):
        v = ref.smhasher_verification(impl_bytes)
        print(f"    SMHasher verification through murmur3_32: {v:#x} (published 0xb0f57ee3)")
        return [] if v == ref.SMHASHER_VERIFICATION else [f"SMHasher verification value {v:#x} != 0xb0f57ee3"]
    seed = detail["seed"]
    cps = list(fills(detail["length"])[detail["fill"]]) if "fill" in detail else detail["codepoints"]
    s = "".join(map(chr, cps))
    chk = runner.Check(PROPERTY, LEVEL, "replay", 0)
    if all(c < 256 for c in cps):
        b = bytes(cps)
        c, p = ref.c_ref(b, seed), ref.py_ref(b, seed)
        try:
            got = ("ret", murmur3_32(s, seed))
        except Exception as e:  # noqa
            got = ("exc", e)
        print(f"    input {show(b)} seed {seed:#x}: C reference {c:#x}, struct reference {p:#x}, murmur3_32 -> {got[1]!r}")
        if c != p:
            raise runner.HarnessError("references disagree")
        if got != ("ret", c) or type(got[1]) is not int:
            judge(chk, b, seed, c, got)
    else:
        v = check_nonbyte(chk, s, seed)
        print(f"    input code points {cps} seed {seed:#x}: murmur3_32 -> {v!r}")
        if detail.get("hashseed"):
            env = dict(os.environ, PYTHONHASHSEED=str(detail["hashseed"]), PYTHONDONTWRITEBYTECODE="1")
            code = ("import sys,json; sys.path.insert(0, sys.argv[1]); "
                    "from pymemcache.client.murmur3 import murmur3_32; a=json.loads(sys.argv[2]); "
                    "print(murmur3_32(''.join(map(chr,a[0])), a[1]))")
            r = subprocess.run([sys.executable, "-c", code, runner.repo_dir(), json.dumps([cps, seed])],
                               env=env, capture_output=True, text=True)
            other = r.stdout.strip()
            print(f"    with PYTHONHASHSEED={detail['hashseed']}: {other or r.stderr[-200:]}")
            if other != str(v):
                chk.violation("nonbyte-nondeterministic|across-processes",
                              f"murmur3_32({s!r}, {seed:#x}) = {v!r} here, {other} under PYTHONHASHSEED="
                              f"{detail['hashseed']}", detail)
    return [v["what"] for v in chk.violations.values()]
