"""Self-tests of the exploration engines: the number and the set of executions they enumerate is
compared with closed forms / brute-force references on toy programs, and known toy bugs are found at
exactly the bound where they become reachable.  (The engines are part of the trusted base; an
'exhaustive within the bound' claim is only as good as their enumeration.)

Run: /venv/bin/python -m pytest -q -p no:cacheprovider --no-cov /verif/selftest
"""
import itertools
from math import comb

import pytest

from vmc import explore, sched
from vmc.runner import HarnessError


# ---------------------------------------------------------------------------- E1


@pytest.mark.parametrize("k,m,bound", [(1, 1, 1), (4, 1, 2), (5, 3, 2), (6, 2, 3), (3, 4, 3), (7, 2, 0)])
def test_e1_enumerates_every_plan_within_the_bound_exactly_once(k, m, bound):
    labels = [f"dev{j}" for j in range(m)]

    def run(ch):
        return tuple(ch.choose("p", labels) for _ in range(k))

    seen = []
    n = explore.explore(run, bound, lambda ch, res: seen.append(res))
    want = {c for c in itertools.product(range(m + 1), repeat=k) if sum(1 for x in c if x) <= bound}
    assert n == len(seen) == len(want) == sum(comb(k, i) * m ** i for i in range(bound + 1))
    assert set(seen) == want


def test_e1_handles_executions_whose_shape_depends_on_earlier_choices():
    # a deviation at a point ends the "call": later points disappear; a second call follows
    def run(ch):
        out = []
        for call in range(2):
            for step in range(3):
                c = ch.choose(f"c{call}s{step}", ["fail"])
                out.append((call, step, c))
                if c:
                    break
        return tuple(out)

    seen = []
    explore.explore(run, 2, lambda ch, res: seen.append(res))
    # reference: each call is "no failure" or "fails at step 0/1/2"; <= 2 failures overall -> 4 x 4
    assert len(seen) == len(set(seen)) == 16


def test_e1_replay_of_a_diverging_prefix_is_a_hard_error():
    flip = {"n": 0}

    def run(ch):
        flip["n"] += 1
        ch.choose("a", ["x"])
        if flip["n"] > 1:  # nondeterministic program: the second point exists only on the first execution
            return
        ch.choose("b", ["y"])

    with pytest.raises(HarnessError):
        explore.explore(run, 1, lambda ch, res: None)


# ---------------------------------------------------------------------------- E3


def _two_threads(ch, n, body=None):
    s = sched.Sched(ch)
    log = []

    def mk(tid):
        def fn():
            for i in range(n):
                log.append((tid, i))
                s.point()
            log.append((tid, n))
        return fn

    for tid in range(2):
        s.add(body(s, tid, log) if body else mk(tid))
    s.run()
    return s, tuple(log)


def _reference_schedules(n, bound):
    """Brute force: every interleaving of two threads with n+1 segments each, with its preemption count."""
    out = set()
    for seq in set(itertools.permutations([0] * (n + 1) + [1] * (n + 1))):
        left = [n + 1, n + 1]
        pre = 0
        for i, t in enumerate(seq):
            left[t] -= 1
            if i + 1 < len(seq) and seq[i + 1] != t and left[t] > 0:
                pre += 1
        if pre <= bound:
            out.add(seq)
    return out


@pytest.mark.parametrize("n,bound", [(1, 0), (1, 1), (2, 0), (2, 1), (2, 2), (3, 2), (3, 3), (2, 99), (3, 99)])
def test_e3_enumerates_exactly_the_schedules_within_the_preemption_bound(n, bound):
    seen = []
    cnt = sched.explore_costed(lambda ch: _two_threads(ch, n), bound,
                               lambda ch, res: seen.append(tuple(t for t, i in res[1])))
    want = _reference_schedules(n, bound)
    assert cnt == len(seen) == len(set(seen)) == len(want)
    assert set(seen) == want
    if bound >= 2 * n + 1:
        assert cnt == comb(2 * n + 2, n + 1)


def _lost_update(locked):
    def body(s, tid, log):
        def fn():
            if locked:
                with body.lock:
                    tmp = body.x
                    s.point()
                    body.x = tmp + 1
            else:
                tmp = body.x
                s.point()
                body.x = tmp + 1
        return fn
    return body


@pytest.mark.parametrize("bound,expect", [(0, {2}), (1, {1, 2}), (2, {1, 2})])
def test_e3_finds_the_lost_update_at_the_first_bound_where_it_is_reachable(bound, expect):
    body = _lost_update(False)
    finals = set()

    def run(ch):
        body.x = 0
        return _two_threads(ch, 0, body)

    sched.explore_costed(run, bound, lambda ch, res: finals.add(body.x))
    assert finals == expect


def test_e3_a_scheduler_visible_lock_excludes_the_lost_update_and_blocked_threads_are_not_runnable():
    body = _lost_update(True)
    finals = set()
    blocked = []

    def run(ch):
        body.x = 0
        s = sched.Sched(ch)
        body.lock = sched.SimLock(s)
        s.nblocked = 0
        orig = s.block

        def block(t):
            s.nblocked += 1
            return orig(t)

        s.block = block
        for tid in range(2):
            s.add(body(s, tid, None))
        s.run()
        return s

    def on_exec(ch, s):
        finals.add(body.x)
        blocked.append(s.nblocked > 0)
        assert s.deadlock is None

    n = sched.explore_costed(run, 3, on_exec)
    assert finals == {2} and any(blocked) and n > 3


def test_e3_reports_a_lock_order_deadlock_and_only_when_preemption_allows_it():
    def run(ch):
        s = sched.Sched(ch)
        a, b = sched.SimLock(s), sched.SimLock(s)

        def t0():
            with a:
                with b:
                    pass

        def t1():
            with b:
                with a:
                    pass

        s.add(t0)
        s.add(t1)
        s.run()
        return s

    for bound, want in ((0, False), (1, True)):
        dead = []
        sched.explore_costed(run, bound, lambda ch, s: dead.append(s.deadlock is not None))
        assert any(dead) is want


def _racy_counter():
    box = {"x": 0}

    def incr():
        v = box["x"]
        box["x"] = v + 1

    return box, incr


def test_e3_instruction_level_instrumentation_separates_a_read_from_the_following_write():
    # no explicit scheduling point: sys.monitoring INSTRUCTION events on the function's code object
    box, incr = _racy_counter()
    ins = sched.Instrument([incr.__code__], "instruction")
    finals = {}
    try:
        def run(ch):
            box["x"] = 0
            s = sched.Sched(ch)
            s.add(incr)
            s.add(incr)
            ins.sched = s
            try:
                s.run()
            finally:
                ins.sched = None
            return s

        for bound in (0, 1):
            got = set()
            sched.explore_costed(run, bound, lambda ch, s: got.add(box["x"]))
            finals[bound] = got
        # the same schedule twice gives the same result (replay determinism)
        ch1, ch2 = sched.CostChooser((0, 1)), sched.CostChooser((0, 1))
        run(ch1)
        a = box["x"]
        run(ch2)
        assert a == box["x"] and ch1.choices == ch2.choices and ch1.kinds == ch2.kinds
    finally:
        ins.uninstall()
    assert finals[0] == {2} and finals[1] == {1, 2}
