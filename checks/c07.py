"""C07 - ignore_exc turns every read failure into a cache miss.

Engine E1.  Every read call shape x client stack (ignore_exc=True) x every fault plan with
<= bound deviations (plus a deserializer that raises), optionally after a warm-up call, then a
probe round trip under a faultless environment.  Differential oracle: the value must equal
what the very same call returns on a fresh stack of the same class over empty healthy
servers (a miss) - for the keys whose server failed - and nothing may be raised.
"""

from __future__ import annotations

import itertools

from pymemcache.client.base import Client, PooledClient
from pymemcache.client.hash import HashClient

from vmc import connoracle, explore, ops, runner, simnet, stacks
from vmc.ops import Op

PROPERTY = "C07"
LEVEL = "fault_enumeration"
RULE = (
    "executions = stack (ignore_exc=True) x serde (none / raising deserializer) x [warm-up] x read call "
    "shape x fault plan with <= bound deviations, then probe set;get without faults; non-trivial = >=1 "
    "hard deviation hit the read call; distinct = distinct (stack, shape, deviation kinds, result repr)"
)
STACKS = ("client", "pooled", "pooled_idle", "hash1", "hash1d", "hash2", "hash2p", "hash0")
IDLE = 10
D, C = "DFLT", "CASD"
SHAPES = [
    Op("get", "a"),
    Op("get", "a", D),
    Op("get", "a", default=D),
    Op("gets", "b"),
    Op("gets", "b", default=D, cas_default=C),
    Op("gat", "a", expire=5),
    Op("gat", "a", expire=5, default=D),
    Op("gats", "b", expire=5),
    Op("gats", "b", expire=5, default=D, cas_default=C),
    Op("get_many", ["a", "b", "c"]),
    Op("gets_many", ["b", "a"]),
    Op("get_many", ("b",)),
]
WARM = Op("get", "b")
PROBE_SET = Op("set", "p", b"pv", noreply=False)
PROBE_GET = Op("get", "p")


class RaisingSerde:
    def serialize(self, key, value):
        return value, 0

    def deserialize(self, key, value, flags):
        raise ValueError("undeserialisable item")


def cls_of(stack):
    return {"client": Client, "pooled": PooledClient, "pooled_idle": PooledClient}.get(stack, HashClient)


GAP = 2  # seconds between warm-up and read when warm == "gap": beyond HashClient's retry_timeout (1 s)


MENU = {k: list(v) for k, v in simnet.MENU_CONN.items()}
MENU["reply"] = MENU["reply"] + ["odd_cas"]  # an intact item whose cas field is not a number
MENU["getaddrinfo"] = ["gaierror"]  # the resolver is part of the network: a name that does not resolve just now


def run_case(ch, stack, serde, warm, shape, preload=True, probe=True):
    net = stacks.new_net(ch, menu=MENU)
    if preload:
        ops.preload(net)
    cfg = dict(ignore_exc=True, default_noreply=True, connect_timeout=3, timeout=7)
    if serde:
        cfg["serde"] = RaisingSerde()
    if stack == "pooled_idle":
        # the warmed-up connection outlives pool_idle_timeout: the next checkout has to dispose of it first
        obj = stacks.build("pooled", net, pool_idle_timeout=IDLE, **cfg)
    else:
        obj = stacks.build(stack, net, **cfg)
    seq = ([WARM] if warm else []) + [shape]
    rec = []
    for i, op in enumerate(seq, 1):
        net.call = i
        if warm == "gap" and i == 2:
            # hash1d: the warm-up failure evicted the only server; the read comes after dead_timeout (60 s), when it is
            # taken back - whatever it answers at that moment
            net.clock.advance(IDLE + 1 if stack == "pooled_idle" else 61 if stack == "hash1d" else GAP)
        try:
            rec.append(("ret", op.call(obj)))
        except Exception as e:
            rec.append(("exc", e))
    prec = []
    if probe and stack != "hash0":
        net.chooser = None  # faultless environment from here on
        net.clock.advance(61 if stack == "hash1d" else 2)  # past HashClient's retry_timeout (hash1d: dead_timeout)
        for j, op in enumerate((PROBE_SET, PROBE_GET), len(seq) + 1):
            net.call = j
            try:
                prec.append(("ret", op.call(obj)))
            except Exception as e:
                prec.append(("exc", e))
    net.call = 0
    return net, obj, rec, prec


def baselines(stack, serde, warm, shape):
    """(miss, hit, owner): miss = same call on empty healthy servers; hit = same sequence without
    faults on the preloaded servers; owner: key -> address of the server that was asked for it."""
    net, obj, rec, _ = run_case(None, stack, serde, False, shape, preload=False, probe=False)
    miss = rec[-1]
    net, obj, rec, _ = run_case(None, stack, serde, warm, shape, probe=False)
    hit = rec[-1]
    owner = {}
    ncall = len(rec)
    for addr, srv in net.servers.items():
        for call, cid, cmd, outcome in srv.log:
            if call == ncall and hasattr(cmd, "keys"):
                for k in cmd.keys:
                    owner[k] = addr
    return miss, hit, owner


def keys_of(shape):
    a = shape.args[0]
    ks = list(a) if isinstance(a, (list, tuple)) else [a]
    return ks


def expected(stack, shape, miss, hit, owner, net, ncall, warm=True):
    """What the read call must return given which servers failed."""
    if stack.startswith("hash") and warm == "gap":
        # retry_timeout has elapsed: a server that failed in the warm-up call is tried again
        failed = {a for (c, a, l) in net.hard if c == ncall}
    elif stack.startswith("hash"):
        # HashClient remembers a server as failing only after a network-level (OSError) failure
        failed = {a for (c, a, l) in net.hard if c == ncall} | network_failed_before(net, ncall)
    else:
        failed = {a for (c, a, l) in net.hard if c == ncall}
    ks = keys_of(shape)
    bk = [k.encode() if isinstance(k, str) else k for k in ks]
    if shape.name in ("get_many", "gets_many"):
        if hit[0] != "ret" or not isinstance(hit[1], dict):
            return hit
        out = {}
        for k, b in zip(ks, bk):
            if k in hit[1] and owner.get(b) not in failed:
                out[k] = hit[1][k]
        return ("ret", out)
    if owner.get(bk[0]) in failed or (not stack.startswith("hash") and failed):
        return miss
    return hit


def network_failed_before(net, ncall):
    """Servers on which an earlier call ended in an OSError-type failure (what HashClient's failover
    reacts to), read off the socket events: a failed connect/send/receive other than EINTR."""
    out = set()
    for e in net.events:
        if e[1] < ncall and e[2] in ("connect_fail", "sendall_fail", "recv_fail") and e[3] >= 0:
            reason = e[5] if e[2] == "connect_fail" else e[4]
            if reason != "eintr":
                out.add(net.socks[e[3]].addr)
    out |= {a for (c, a, l) in net.hard if c < ncall and l == "gaierror"}
    return out


def same(a, b):
    if a[0] != b[0]:
        return False
    if a[0] == "exc":
        return type(a[1]) is type(b[1])
    return a[1] == b[1] and type(a[1]) is type(b[1])


def show(r):
    return (r[0] + ":" + connoracle.short(r[1], 70))


def _jobs(tier):
    jobs = []
    for stack in STACKS:
        for serde in (False, True):
            for warm in (False, True, "gap"):
                if warm == "gap" and not (stack.startswith("hash") or stack == "pooled_idle"):
                    continue
                if stack == "pooled_idle" and warm != "gap":
                    continue
                for si in range(len(SHAPES)):
                    jobs.append((stack, serde, warm, si, tier))
    return jobs


def _worker(job, chk):
    stack, serde, warm, si, tier = job
    shape = SHAPES[si]
    bound = 2 if tier == "quick" else 3
    miss, hit, owner = baselines(stack, serde, warm, shape)
    cname = cls_of(stack).__name__
    if miss[0] == "exc":
        # this call shape is not offered by this class (signature); C16 judges parity, not C07
        chk.count("shapes_not_offered")
        return
    if serde and not same(hit, miss) and stack != "hash0":
        chk.violation(f"undeserialisable-not-a-miss|{cname}|{shape.label}",
                      f"{cname}(ignore_exc=True).{shape.label} with an item whose deserialiser raises gives "
                      f"{show(hit)}; a miss gives {show(miss)}",
                      {"stack": stack, "serde": serde, "warm": warm, "shape": shape.label, "choices": []})
    ncall = 2 if warm else 1

    def run(ch):
        return run_case(ch, stack, serde, warm, shape)

    def on_exec(ch, res):
        net, obj, rec, prec = res
        chk.add()
        got = rec[-1]
        hard_here = [h for h in net.hard if h[0] == ncall]
        if hard_here:
            chk.outcome((stack, shape.label, connoracle.devsig(ch), show(got)))
            if len(chk.samples) < 1 and si == 4:
                chk.sample({"stack": stack, "call": shape.label, "warm_up": warm, "fault_plan": ch.plan(),
                            "result": show(got), "miss_result": show(miss)})
        bad = None
        if got[0] != "ret":
            bad = (f"raises|{cname}|{shape.label}|{type(got[1]).__name__}",
                   f"{cname}(ignore_exc=True).{shape.label} raised {got[1]!r} under fault plan {ch.plan()}")
        elif any(sf[0] == ncall for sf in net.soft):
            pass  # an odd cas token: a hit with that token and a miss are both fine, raising is not
        else:
            exp = expected(stack, shape, miss, hit, owner, net, ncall, warm)
            if not same(got, exp):
                kind = "failure-result-differs-from-miss" if (hard_here or net.hard) else "wrong-result-without-fault"
                bad = (f"{kind}|{cname}|{shape.label}",
                       f"{cname}(ignore_exc=True).{shape.label} returned {show(got)} under fault plan "
                       f"{ch.plan()}; expected {show(exp)} (a miss returns {show(miss)})")
        if bad is None and prec:
            if prec[0] != ("ret", True) or prec[1] != ("ret", None if serde else b"pv"):
                bad = (f"unusable-afterwards|{cname}|{shape.name}|{connoracle.devsig(ch)}",
                       f"after {cname}.{shape.label} under {ch.plan()} the probe set;get gave "
                       f"{show(prec[0])}; {show(prec[1])}")
        if bad:
            sig, text = bad
            if sig not in chk.violations:
                _, r2 = explore.replay(run, ch.choices)
                if r2[0].events != net.events:
                    raise runner.HarnessError("harness nondeterminism in C07")
            chk.violation(sig, text, {"stack": stack, "serde": serde, "warm": warm, "shape": shape.label,
                                      "choices": list(ch.choices), "plan": ch.plan()})

    explore.explore(run, bound, on_exec)
    chk.count("cases")


DOWN_STACKS = ("hash1", "hash1d", "hashu1d", "hash2", "hash2p", "pooled", "client")
DOWN_MODES = ("refused", "timeout", "reset", "unreach")
DOWN_GAPS = (0, 0.5, 2, 61)  # none / below retry_timeout / above it / above dead_timeout


def _down_worker(job, chk):
    """Every server is down for good (persistent failure mode): whatever the history of earlier reads and
    pauses - the retry and eviction bookkeeping of HashClient runs through all its stages - every read
    returns what a miss returns and nothing is raised."""
    _, stack, mode, si = job
    shape = SHAPES[si]
    miss = run_case(None, stack, False, False, shape, preload=False, probe=False)[2][-1]
    if miss[0] == "exc":
        chk.count("shapes_not_offered")
        return
    cname = cls_of(stack).__name__
    nreads = 5
    for gaps in itertools.product(DOWN_GAPS, repeat=nreads - 1):
        net = stacks.new_net(None, menu=simnet.MENU_CONN)
        ops.preload(net)
        obj = stacks.build(stack, net, ignore_exc=True, default_noreply=True, connect_timeout=3, timeout=7)
        for srv in net.servers.values():
            if not srv.items:
                ops.preload_one(srv)
        for addr in list(net.servers):
            net.failing[addr] = mode
        results = []
        for i in range(nreads):
            if i:
                net.clock.advance(gaps[i - 1])
            net.call = i + 1
            try:
                r = shape.call(obj)
                results.append(("ret", dict(r) if type(r) is dict else r))
                if type(r) is dict:
                    # the result belongs to the caller, who fills the misses in (cache-aside): later reads are unaffected
                    for k in keys_of(shape):
                        r[k] = b"filled in by the caller"
            except Exception as e:  # noqa
                results.append(("exc", e))
        chk.add()
        chk.outcome(("down", stack, mode, shape.label, gaps))
        for i, r in enumerate(results):
            if not same(r, miss):
                what = "raises" if r[0] == "exc" else "failure-result-differs-from-miss"
                extra = f"|{type(r[1]).__name__}" if r[0] == "exc" else ""
                chk.violation(f"{what}|{cname}|{shape.label}{extra}|servers-down",
                              f"{cname}(ignore_exc=True) [{stack}], every server failing ({mode}) throughout: read {i + 1} of "
                              f"{shape.label} (pauses before the reads: {list(gaps[:i])}) gave {show(r)}; a miss returns {show(miss)}",
                              {"down": True, "stack": stack, "mode": mode, "shape": shape.label, "gaps": list(gaps)})
                break
    chk.count("cases")


def _any_worker(job, chk):
    if job[0] == "down":
        return _down_worker(job, chk)
    return _worker(job, chk)


def run(chk):
    chk.rule = RULE
    chk.assumptions = ["a hard deviation (refused/timeout/reset/EOF/error line/garbage/truncation/foreign key) makes the exchange it hits fail",
                       "for a multi-server HashClient the keys of the servers that did not fail are still expected"]
    chk.info["deviation_bound_completed"] = 2 if chk.tier == "quick" else 3
    down = [("down", stack, mode, si) for stack in DOWN_STACKS for mode in DOWN_MODES for si in range(len(SHAPES))
            if chk.tier != "quick" or (mode in ("refused", "timeout") and si in (0, 3, 5, 8, 9, 10))]
    runner.parallel(chk, _any_worker, _jobs(chk.tier) + down)


def replay(detail):
    shape = next(s for s in SHAPES if s.label == detail["shape"])
    if detail.get("down"):
        tmp = runner.Check(PROPERTY, LEVEL, "quick", 0)
        _down_worker(("down", detail["stack"], detail["mode"], SHAPES.index(shape)), tmp)
        return [v["what"] for v in tmp.violations.values()]
    stack, serde, warm = detail["stack"], detail["serde"], detail["warm"]
    miss, hit, owner = baselines(stack, serde, warm, shape)
    ch, (net, obj, rec, prec) = explore.replay(lambda c: run_case(c, stack, serde, warm, shape), detail["choices"])
    for ev in net.events:
        print("   ", ev)
    ncall = 2 if warm else 1
    exp = expected(stack, shape, miss, hit, owner, net, ncall, warm)
    print("    result:", show(rec[-1]), " expected:", show(exp), " miss:", show(miss), " probe:", [show(p) for p in prec])
    out = []
    if not same(rec[-1], exp):
        out.append(f"{shape.label}: {show(rec[-1])} != {show(exp)}")
    if prec and (prec[0] != ("ret", True) or prec[1] != ("ret", None if serde else b"pv")):
        out.append("probe failed")
    return out
