"""Source of truth for MANIFEST.json (tools_manifest.py renders it)."""

TB = ("Trusted: CPython 3.12; the explorer (vmc/explore.py); simnet's model of sockets; "
      "ModelServer's reading of the memcached text protocol. ")

CHECKS = {
    "C01": dict(
        engine="E1-deviation-bounded-explorer",
        level="fault_enumeration",
        technique="stateless exhaustive enumeration of fault plans (<=k deviations) on the real client over a simulated network, reply-ownership oracle on every execution",
        design_ref="DESIGN.md section 3 / C01",
        text="Every sequence op1;op2 (thorough: also op1;op2;op3) over the whole public operation alphabet x 5 client stacks x default_noreply on/off x every fault plan with <=1 (quick) / <=2 (thorough) deviations at any socket call or reply is executed on the real code; each execution is judged by tags on reply bytes (no call reads another call's reply), nothing left unread on a live connection, no read that can never complete, and the value implied by the server's own outcomes. Exhaustive within the stated bound, not sampled.",
        note=TB + "sendall is all-or-nothing; plans with more deviations than the bound, and sequences longer than 3 calls, are not explored.",
    ),
    "C03": dict(
        engine="segmentation-enumerator",
        level="exploration",
        technique="bounded-exhaustive enumeration of reply segmentations and EINTR placements against the real reader code, differential + absolute oracle",
        design_ref="DESIGN.md section 3 / C03",
        text="For each of ~60 (operation, faithful reply stream) scenarios produced by the reference server, the real client is run once per segmentation of the stream into recv() results: every subset of cut positions for replies <=16 bytes (thorough 20), every <=3-cut (thorough 4) subset of the interesting positions otherwise, all-single-byte, x EINTR before one/all pieces. The result must equal the unsegmented one and the value implied by the server's outcomes.",
        note="Trusted: the reply streams of vmc/modelserver.py; recv(n) returns <= n bytes. Segmentations of long replies with more cuts than the bound, away from the interesting positions, are not explored.",
    ),
    "C06": dict(
        engine="E1-deviation-bounded-explorer",
        level="fault_enumeration",
        technique="stateless exhaustive enumeration of fault plans over every socket-level call (resolve, create, options, TLS wrap, timeouts, connect, send, receive, close) on the real client, socket-lifecycle monitors over the event log of every execution",
        design_ref="DESIGN.md section 3 / C06",
        text="Histories op1;op2[;op3];close() x 5 transports (TCP with 1-3 resolved addresses, UNIX, TLS) x option sets (no_delay, keepalive, timeout combinations incl. one-sided, ignore_exc) x {Client, PooledClient, HashClient} x every fault plan with <=1 (quick) / <=2 (thorough) deviations; monitors: never two open sockets per client, no open socket that its client no longer references, nothing open after close(), connect under connect_timeout and I/O under timeout, no I/O on the unwrapped socket under TLS, a fault-free call after any failure reconnects and returns the right answer, a later resolved address is used when socket creation fails for an earlier one.",
        note=TB + "A socket is open from socket() to close(); every resolved address is served by the same reference server; more than 2 deviations per history not explored.",
    ),
    "C07": dict(
        engine="E1-deviation-bounded-explorer",
        level="fault_enumeration",
        technique="stateless exhaustive enumeration of fault plans on the real clients with ignore_exc, differential oracle against the same call on a fresh healthy empty stack",
        design_ref="DESIGN.md section 3 / C07",
        text="12 read call shapes (defaults positional/keyword) x 6 stacks (Client, PooledClient, HashClient with 0/1/2 servers, pooled or not) x {no serde, raising deserializer} x {cold, after a warm-up call} x every fault plan with <=1 (quick) / <=2 (thorough) deviations; nothing may be raised, the result must equal the miss result of the very same call (for the keys whose server failed), and a probe set;get afterwards must succeed.",
        note=TB + "For a multi-server HashClient the keys of servers that did not fail are still expected in multi-key results (a reading of 'miss' per server); call shapes a class does not offer at all are left to C16.",
    ),
    "C10": dict(
        engine="E1-deviation-bounded-explorer",
        level="fault_enumeration",
        technique="exhaustive enumeration of interruption (crash) points: every socket call of every call x 3 BaseException types x before/after the call's effect, on the real clients, reply-ownership + pool-slot oracle",
        design_ref="DESIGN.md section 3 / C10",
        text="op1;op2[;op3] over the operation alphabet on Client, PooledClient (max 1, max 2, with idle expiry) and HashClient (plain, pooled); op1..opN are interrupted at every socket-level call (getaddrinfo, socket, setsockopt, settimeout, connect, sendall, recv, close) by KeyboardInterrupt / SystemExit / a BaseException subclass, alone and (reduced grid in quick, full in thorough) combined with one ordinary deviation; the interruption must propagate, later calls must satisfy the C01 oracle, and no pool slot may stay checked out.",
        note=TB + "One interruption per history; the interruption is raised by the socket call itself (gevent-style), not between two bytecodes of library code.",
    ),
    "C09": dict(
        engine="E2-explicit-state-bfs",
        level="model_checking",
        technique="explicit-state breadth-first search with state de-duplication over histories of a real PooledClient (replayed on fresh objects), transitions = operation x exhaustive fault plan within the operation, lockstep comparison with a reference pool model",
        design_ref="DESIGN.md section 3 / C09",
        text="For 12 configurations (max_pool_size 1/2/unbounded x ignore_exc x pool_idle_timeout 0/10) the reachable canonical pool states are enumerated to a fixpoint; from every state every operation of the alphabet is executed on the real code under no fault and under every single (thorough: double) deviation at any of its socket calls, plus slow replies and clock advances around the idle timeout. Every transition is checked: nothing stays checked out, the sockets of a failed inner call are closed, a healthy idle connection within the timeout is reused without reconnecting, an expired one is closed and never reused, no 'Too many objects'.",
        note=TB + "Sequential use only (C08 covers concurrent checkouts); 'failed call' = an exception left the inner Client method (observed through the client_class seam).",
    ),
    "C20": dict(
        engine="input-enumerator",
        level="exploration",
        technique="bounded-exhaustive enumeration of keys x prefixes x flags through every validation entry point, compared with an independent legality predicate",
        design_ref="DESIGN.md section 3 / C20",
        text="All str and bytes keys of length <=2 over the full 256-value alphabet (quick: <=1 full, 2 and 3 over a 16-class projection), every byte at every position of 249/250/251-byte keys, byte lengths around the limit for 1-4 byte UTF-8 characters, x 8 prefixes (lengths 0,1,3,125,249,250, two containing separators) x allow_unicode_keys, through check_key_helper, Client.check_key, PooledClient.check_key and the get() path of Client, PooledClient and HashClient; accepted iff the independent predicate says legal, returned/transmitted form == prefix+encoded key, rejection is MemcacheIllegalInputError and happens before anything is written.",
        note="Trusted: the predicate in vmc/keyspace.py (written from the property statement). Keys whose prefixed form is empty are outside the statement; longer keys are covered by structured families, not exhaustively.",
    ),
    "C02": dict(
        engine="input-enumerator",
        level="exploration",
        technique="bounded-exhaustive enumeration of operations x arguments x configurations on the real client; every byte written is parsed by an independent strict protocol parser and compared with independently computed intended commands",
        design_ref="DESIGN.md section 3 / C02",
        text="(A) every key-addressed operation x all keys of <=1 byte/char over the full alphabet (thorough: <=2), 2-3 chars over a 16-class projection, boundary-length keys, the empty key x 3 prefixes (one containing a space) x allow_unicode_keys x str/bytes; (B) store operations x a corpus of values made of protocol text x ascii/utf8; (C) every integer parameter x protocol boundary values and a menu of non-integers (float, str, bytes, None, bool, list, CR LF payloads); (D) multi-key calls (1-4 and 16..2050 keys) with an illegal key at every / selected position(s); (E) a flag-using serializer x explicit flags. Either MemcacheIllegalInputError with zero bytes written, or the strict parser reads exactly the intended commands.",
        note="Trusted: vmc/strictparse.py as the definition of well-formed. Integers outside protocol ranges are not judged. Known finding: the empty key with an empty prefix (pinned by the suite).",
    ),
    "C05": dict(
        engine="E2-explicit-state-bfs",
        level="model_checking",
        technique="explicit-state level-synchronous BFS over operation histories of the real Client against a reference server, canonical-state de-duplication, lockstep comparison with an abstract map-with-expiry-and-cas on every transition",
        design_ref="DESIGN.md section 3 / C05",
        text="From three seeded initial states (empty, a counter at 2^64-1, a counter at 0) and for 4 configurations (key prefix x default_noreply), all histories over ~110 events per state (every store verb, cas with remembered/zero/foreign token, get/gets/gat/gats/multi-gets, touch, delete(_many), incr/decr, flush_all with and without delay, set_many, clock advances 1 and 10; noreply default and explicit) on two keys chosen to collide if prefixing is wrong are explored breadth-first to depth 3 (quick) / 6 or fixpoint (thorough). Every transition executes the real client and compares its return value with AbstractCache and the server's contents with the abstract contents.",
        note=TB + "AbstractCache (vmc/abstractcache.py) encodes the documented contract; values grow to <=2 (thorough 3) bytes and counters to 3; beyond the depth cap states are not expanded (caps_hit).",
    ),
    "C13": dict(
        engine="E2-explicit-state-bfs",
        level="model_checking",
        technique="explicit-state BFS with canonical-state de-duplication over failure/recovery/time/traffic histories of a real HashClient under a virtual clock; trace properties folded into monitor state; recovery suffix executed from every reachable state",
        design_ref="DESIGN.md section 3 / C13",
        text="12 configurations (2-3 servers x retry_attempts 0/1/2 x ignore_exc) with retry_timeout=1, dead_timeout=6; events: operation (get, get_many, set_many; thorough also set, delete) on a key owned by server i, clock advance 1/2/7, server i starts failing (refused, reset; thorough also timeout) or recovers; BFS to depth 7 (2 servers) / 5 (3 servers), thorough 9 / 7. On every transition: contacts to a failing server <=2 per retry_timeout window and <= retry_attempts+2 per dead_timeout window, no eviction by a single failure when retries are configured, a never-failed owner is always contacted and answers correctly, keys of an evicted server are served inside the rotation, only the failing server's own error or 'all servers down' escapes (nothing with ignore_exc); from every new state: all healthy + two dead_timeout periods of traffic restores rotation and placement.",
        note=TB + "Histories beyond the depth cap are not explored (no fixpoint: the monitors' contact ages keep the state space growing); failing = network-level failure.",
    ),
    "C11": dict(
        engine="E2-explicit-state-bfs",
        level="model_checking",
        technique="exhaustive enumeration of node sets x insertion orders plus explicit-state BFS over add/remove histories of a real RendezvousHash (queried all along), compared with an independent reference rule; sub-process digests across PYTHONHASHSEED",
        design_ref="DESIGN.md section 3 / C11",
        text="(a) all 255 node sets from an 8-name universe (incl. a pair of names whose murmur3 scores tie for every key) x all insertion orders for sets of <=5 (thorough 6) nodes x a structured key corpus: identical across orders and equal to the reference rule; (b) BFS over add/remove histories on 5 nodes to depth 6 (thorough 8), three hash functions (murmur3, constant, parity): placement equals the rule for the node set however reached, removal moves only the removed node's keys, addition moves keys only onto the new node; (c) tie-forcing hashes x all orders; (d) HashClient over simnet: contacted server == rule, 6 pairs of equivalent address spellings place identically, duplicates do not enter the rotation twice; (e) digests in sub-processes under 5-8 PYTHONHASHSEED values; (f) every node owns 0.5x-1.5x its fair share.",
        note="Trusted: vmc/ref/placement.py (independent MurmurHash3 + rendezvous rule). Node sets beyond 8 names and permutations beyond 6 nodes are not enumerated.",
    ),
    "C14": dict(
        engine="input-enumerator",
        level="exploration",
        technique="bounded-exhaustive enumeration of byte strings x seeds through the real murmur3_32, compared with two independent references (a C transcription of MurmurHash3_x86_32 and a struct-based Python one), published vectors and SMHasher's verification constant",
        design_ref="DESIGN.md section 3 / C14",
        text="All strings of length 0..2 over the full byte alphabet (thorough 0..3), lengths 3..5 (thorough 7) over a 6-value alphabet, structured families for every length 0..64 (thorough 256) and around powers of two up to 2^16 (2^17), 36 seeds (0, 2^32-1, 2^31-1, a published one, the 32 one-bit seeds); 25 published vectors and SMHasher's VerificationTest; strings with code points >255: deterministic 32-bit value, equal across calls and across child interpreters with different PYTHONHASHSEED.",
        note="Trusted: vmc/ref/murmur3_ref.c (compiled by bin/setup or on import) and vmc/ref/murmur3.py; a disagreement between the two references is a harness error, never a violation. 36 of 2^32 seeds; strings >=4 bytes only through reduced alphabets and structured families.",
    ),
    "C15": dict(
        engine="input-enumerator",
        level="exploration",
        technique="bounded-exhaustive enumeration of a recursive value grammar x pickle protocols x compression thresholds x codecs through the real serializers, round-trip/type/flag oracle",
        design_ref="DESIGN.md section 3 / C15",
        text="A value grammar of depth 2 (thorough 3) - bytes/str/int/bool/None/float leaves incl. sizes straddling each threshold, incompressible data, huge ints, subclasses of native types, containers - x PickleSerde protocols 0..5, CompressedSerde x min_compress_len {0,1,10,400} x {zlib,bz2,lzma,identity}, LegacyWrappingSerde: deserialize(serialize(v)) == v with exactly type(v), transmittable form, flags < 2^16, FLAG_COMPRESSED iff the compressed form was stored, stored form never larger than the uncompressed one.",
        note="Known finding: a top-level str with a lone surrogate cannot be serialized. Integers beyond CPython's str-conversion limit are outside.",
    ),
    "C17": dict(
        engine="input-enumerator",
        level="exploration",
        technique="exhaustive enumeration of the retry decision table (outcome sequences x configurations) on the real RetryingClient against a reference policy",
        design_ref="DESIGN.md section 3 / C17",
        text="attempts 1..3 (thorough 1..5) x all 256 pairs of subsets of a 4-class exception hierarchy for retry_for / do_not_retry_for (81 disjoint pairs valid, 175 overlapping must be rejected) x None/tuple/list/set spellings x retry_delay {0, 0.5} x every outcome sequence up to the stopping point; number and arguments of inner calls, number and argument of sleeps (never after the last attempt), identity of the returned object / raised exception; invalid configurations (attempts<1, non-exception members) rejected at construction.",
        note="The reference policy is written over an explicit ancestor table; sleep is observed through the module attribute `sleep` of pymemcache.client.retrying.",
    ),
    "C18": dict(
        engine="input-enumerator",
        level="exploration",
        technique="exhaustive enumeration of hit/miss assignments x operations x argument combinations x read-then-write histories on the real FallbackClient over scripted recorder caches and over real Clients on simnet",
        design_ref="DESIGN.md section 3 / C18",
        text="1..4 (thorough 5) caches x every assignment of hit kinds (incl. falsy hits) / miss x every read in positional and keyword style and every key-collection form: caches consulted in order, first hit returned, nothing consulted after it; every mutator x every combination of given/omitted arguments: exactly one call on cache 0 with the caller's own arguments, never a fallback cache; every read followed by every mutator on one long-lived FallbackClient; the same with real Clients over the reference server.",
        note=TB + "What FallbackClient returns when every cache misses, and its close/stats/quit, are outside the statement.",
    ),
    "C12": dict(
        engine="input-enumerator",
        level="exploration",
        technique="bounded-exhaustive enumeration of server sets x key sets x configurations on one long-lived real HashClient over simulated servers; oracle = per-server command logs vs an independent rendezvous rule",
        design_ref="DESIGN.md section 3 / C12",
        text="5 server sets (1..5 servers, TCP and UNIX mixed) x all 256 subsets of an 8-key universe (str, bytes, (server_key, key) pairs; reduced for some configurations in quick) plus sets of 10/25/50 keys x key_prefix {none, p:} x use_pooling; script per case: set_many, get_many, gets_many, per key get/gets/touch, set/incr/get_many/delete/get, delete_many; plus the aliasing scenario (same item key plain and under a server key, both orders). Each key's command must reach exactly once the server the rule assigns to its routing key; get_many == per-key gets; results keyed by the caller's inner keys.",
        note=TB + "A str key and the bytes key with the same text are different routing keys (the rule formats the raw key).",
    ),
    "C16": dict(
        engine="input-enumerator",
        level="exploration",
        technique="differential bounded-exhaustive enumeration of operations x keyword-argument grid x configuration grid x server states across client stacks, each on a fresh reference server; parsed command lists, results, socket options and timeouts compared with a plain Client",
        design_ref="DESIGN.md section 3 / C16",
        text="12 configurations (key_prefix bytes/str, default_noreply, encoding, allow_unicode_keys, serde, pickle serde, legacy serializer pair, legacy deserializer only, timeouts, no_delay, a combination) x 3 server states (miss, numeric hit, text hit with flags) x ~200 calls (every key-addressed operation with every keyword-argument combination incl. cas match/mismatch, defaults, dict-style access) x {PooledClient, HashClient, pooled HashClient, RetryingClient attempts 1 and 2}: same parsed commands at the server (repeated for a raising call under 2 attempts), same result value and type or exception class, same socket options and timeouts in force as Client.",
        note=TB + "Arguments by keyword only (positional orders differ between the classes); packetisation ignored.",
    ),
    "C19": dict(
        engine="E2-explicit-state-bfs",
        level="model_checking",
        technique="explicit-state BFS over reconfiguration histories of a real AWSElastiCacheHashClient over a simulated cluster (the endpoint serves `config get cluster`), every history replayed on fresh objects; plus exhaustive single-cut and byte-wise delivery of the config reply",
        design_ref="DESIGN.md section 3 / C19",
        text="Initial lists of 1..6 nodes from a 6-node universe (ports differ from the endpoint's) x use_vpc x delivery {whole, byte-wise}; all histories of depth <=2 (thorough 3) over up / down_last / down_first / replace_first / replace_all with rising config versions (9 -> 10 -> 11); the config reply additionally cut at every single byte position at construction and at the first reconfiguration. After construction and every reconfigure_nodes(): rotation and clients equal the advertised list by IP or host name and port, every key of a corpus (60, thorough 500) is served without exception by exactly one advertised node, nothing is sent to a node that is no longer advertised, no socket to a replaced node stays open. An ERROR endpoint must make constructor/reconfigure raise a memcached error (known finding).",
        note=TB + "The reply format of `config get cluster` follows the AWS documentation; every node is reachable by IP and by host name.",
    ),
    "C04": dict(
        engine="input-enumerator",
        level="exploration",
        technique="bounded-exhaustive enumeration of store/fetch round trips of the real client against the reference server over values x serializers x verbs x delivery modes and over key sets x prefixes x collection types",
        design_ref="DESIGN.md section 3 / C04",
        text="(D1) values - every byte string of length <=3 over {CR, LF, 'E', space, NUL, 0xff}, protocol-text values, sizes 0, 1, 4093..4099, 8190..8194 (thorough also 12288, 65536, 1 MiB-1), incompressible blocks, str/int, a grammar of picklable objects incl. falsy ones - x serde {none, custom flag-using, pickle protocols (3 in quick, 0..5 thorough), compressed with thresholds 400 and 1} x store {set, add, replace, cas, set_many} x fetch {get, gets, gat, gats, get_many, gets_many} x delivery {whole, per reply segment, byte-wise}; (D2) key sets (1-3 of a universe incl. 250-byte and multi-byte UTF-8 keys, all of it, lists with repeated keys) x prefix {none, ns:, 200 bytes} x allow_unicode_keys x {get_many, gets_many} x {list, tuple, set, dict view, iterator, generator}: identical bytes / equal value of the same type; every present key exactly once under the caller's key object; prefix on the wire, never in the result.",
        note=TB + "Values above the item limit and calls mixing str/bytes spellings of one key are outside.",
    ),
}

PENDING = "check not built yet in this session; planned engine and oracle are in DESIGN.md section 3"
NOT_APPLICABLE = {f"C{i:02d}": PENDING for i in range(1, 21)}

ENGINES = [
    {"name": "E2-explicit-state-bfs", "path": "checks/c09.py (pattern shared by C05, C11, C13, C19)",
     "serves_properties": ["C05", "C09", "C11", "C13", "C19"],
     "kind_free_text": "explicit-state BFS: a state is the event history reaching it, rebuilt on fresh real objects; canonical form de-duplicates; every transition runs the implementation"},
    {"name": "input-enumerator", "path": "checks/c02.py, checks/c20.py (and c14, c15, c17, c18)",
     "serves_properties": ["C02", "C04", "C12", "C14", "C15", "C16", "C17", "C18", "C20"],
     "kind_free_text": "nested loops over a finite, explicitly listed input space; the real function is called once per element and compared with an independent reference"},
    {"name": "segmentation-enumerator", "path": "checks/c03.py", "serves_properties": ["C03"],
     "kind_free_text": "bounded-exhaustive enumeration of recv() segmentations of reference reply streams"},
    {"name": "E1-deviation-bounded-explorer", "path": "vmc/explore.py",
     "serves_properties": ["C01", "C06", "C07", "C10"],
     "kind_free_text": "stateless DFS over environment answers of the real code (simnet socket module), iterative deviation bound, multiprocessing over scenario partitions"},
]

NOTES = ("All checks run the real pymemcache from /repo's working tree (VERIF_REPO overrides) under "
         "/venv/bin/python; PYTHONHASHSEED=0. VERIF_SEED only rotates visiting order. "
         "known_findings.json lists recorded defects and 'fixed:' entries.")
