"""The alphabet of public operations and what each should return, derived from the
structured outcomes of the commands the reference server executed for that call."""

from __future__ import annotations

from pymemcache.client.hash import HashClient

DEFAULT_FALSE = ("cas", "incr", "decr")  # operations whose noreply default is False


class Op:
    __slots__ = ("name", "args", "kwargs", "label")

    def __init__(self, name, *args, **kwargs):
        self.name = name
        self.args = args
        self.kwargs = kwargs
        a = ",".join(repr(x) for x in args)
        k = ",".join(f"{n}={v!r}" for n, v in kwargs.items())
        self.label = f"{name}({a}{',' if a and k else ''}{k})"

    def __repr__(self):
        return self.label

    def call(self, obj):
        return getattr(obj, self.name)(*self.args, **self.kwargs)

    def supported(self, obj_or_cls):
        return hasattr(obj_or_cls, self.name)

    def noreply(self, default_noreply):
        """Effective noreply of this call, or None when the operation has no such notion."""
        if "noreply" not in _HAS_NOREPLY.get(self.name, ()):
            return None
        nr = self.kwargs.get("noreply")
        if nr is None:
            return False if self.name in DEFAULT_FALSE else default_noreply
        return bool(nr)


_HAS_NOREPLY = {
    n: ("noreply",)
    for n in ("set", "add", "replace", "append", "prepend", "cas", "set_many", "delete",
              "delete_many", "incr", "decr", "touch", "flush_all")
}

K1, K2, K3 = "a", "b", "c"


def alphabet(noreplies=(None, True, False)):
    """Every public data operation, single- and multi-key, on colliding keys."""
    ops = []
    for nr in noreplies:
        kw = {} if nr is None else {"noreply": nr}
        ops += [
            Op("set", K1, b"7", **kw),
            Op("add", K3, b"v", **kw),
            Op("replace", K2, b"w", **kw),
            Op("append", K2, b"+", **kw),
            Op("prepend", K2, b"-", **kw),
            Op("cas", K1, b"9", b"1", **kw),
            Op("set_many", {K1: b"1", K2: b"2", K3: b"3"}, **kw),
            Op("delete", K1, **kw),
            Op("delete_many", [K1, K2, K3], **kw),
            Op("incr", K1, 2, **kw),
            Op("decr", K1, 1, **kw),
            Op("touch", K2, 100, **kw),
            Op("flush_all", **kw),
        ]
    ops += [
        Op("get", K1),
        Op("gets", K2),
        Op("gat", K1, expire=50),
        Op("gats", K2, expire=50),
        Op("get_many", [K1, K2, K3]),
        Op("gets_many", [K2, K1]),
        Op("version"),
        Op("stats"),
        Op("cache_memlimit", 64),
        Op("raw_command", b"version"),
        Op("quit"),
        Op("shutdown"),
    ]
    return ops


def preload_one(srv):
    from vmc.strictparse import parse_all

    items, _ = parse_all(b"set a 0 0 1\r\n5\r\nset b 5 0 1\r\nx\r\n")
    for it in items:
        srv.execute(it)


def preload(net):
    """Initial contents of every server: a numeric item and a text item."""
    for srv in net.servers.values():
        preload_one(srv)


class Unknown:
    """expected() could not be derived (e.g. stats); only the type is checked."""

    def __init__(self, typ):
        self.typ = typ


def expected(op: Op, outcomes, default_noreply, obj):
    """The documented return value for `op`, given the outcomes of the commands the
    server executed for this call (in order)."""
    name = op.name
    is_hash = isinstance(obj, HashClient)
    nr = op.noreply(default_noreply)
    first = outcomes[0] if outcomes else None
    if name in ("set", "add", "replace", "append", "prepend"):
        if nr:
            return True
        return {"stored": True, "not_stored": False}[first[0]]
    if name == "cas":
        if nr:
            return True
        return {"stored": True, "exists": False, "not_found": None}[first[0]]
    if name == "set_many":
        if nr:
            return []
        keys = list(op.args[0])
        # HashClient may batch per server: outcomes arrive grouped per server
        if is_hash:
            return Unknown(list)
        return [k for k, o in zip(keys, outcomes) if o[0] != "stored"]
    if name in ("get", "gat"):
        hits = first[1]
        return hits[0][2] if hits else None
    if name in ("gets", "gats"):
        hits = first[1]
        if hits:
            return (hits[0][2], str(hits[0][3]).encode())
        return (None, None)
    if name in ("get_many", "gets_many"):
        res = {}
        wanted = {(k.encode() if isinstance(k, str) else k): k for k in op.args[0]}
        for o in outcomes:
            for k, fl, v, cas in o[1]:
                res[wanted[k]] = v if name == "get_many" else (v, str(cas).encode())
        return res
    if name == "delete":
        if nr:
            return True
        return first[0] == "deleted"
    if name == "delete_many":
        return True
    if name in ("incr", "decr"):
        if nr:
            return None
        return first[1] if first[0] == "number" else None
    if name == "touch":
        if nr:
            return True
        return first[0] == "touched"
    if name == "flush_all":
        return None if is_hash else True
    if name == "version":
        return first[1]
    if name == "raw_command":
        return b"VERSION " + first[1]
    if name == "cache_memlimit":
        return True
    if name in ("quit", "shutdown"):
        return None
    if name == "stats":
        return Unknown(list if is_hash else dict)
    raise KeyError(name)
