"""C09 - a failed pooled connection is discarded and pool capacity is conserved.

Engine E2: breadth-first search over histories of one real PooledClient over simnet, with
state de-duplication.  A state is the history that reaches it (replayed on fresh objects);
its canonical form is the multiset of idle connections (socket open?, true idle age, the
pool's own idea of the idle age - both clamped just above pool_idle_timeout) and the number
of checked-out connections.  Transitions: every operation of the alphabet under no fault or
under every single deviation (thorough: two) at any socket call of that operation, a 'slow
reply' during which the clock moves, and clock advances below/at/above the idle timeout.
A small reference model of the pool (reuse unless idle too long; failed => closed) is
stepped in lockstep and compared on every transition.
"""

from __future__ import annotations

import collections

from vmc import connoracle, explore, ops, runner, simnet, stacks
from vmc.explore import Chooser

PROPERTY = "C09"
LEVEL = "model_checking"
IDLE = 10
SLOW = IDLE - 2
RULE = (
    "BFS over PooledClient histories; transition = (operation x fault plan within the operation) or clock "
    "advance; states de-duplicated by canonical pool state; every transition executes the real code by "
    "replaying the history on fresh objects; distinct_nontrivial = distinct (config, state, event kind) "
    "with a fault, an expiry or a slow reply taking effect"
)
ADVANCES = (3, IDLE - 1, IDLE, IDLE + 1)
MENU = {k: list(v) for k, v in simnet.MENU_CONN.items()}
MENU["recv"] = MENU["recv"] + ["slow", "slow2"]
MENU["settimeout"] = ["oserror"]  # also a failure while the connection is being set up


def alphabet(tier):
    # calls refused for an illegal key never reach the network, but they do pass through the pool
    refused = [ops.Op("get", "bad key"), ops.Op("set_many", {"a": b"1", "bad key": b"2"}, noreply=False),
               ops.Op("close")]  # PooledClient.close(): every pooled connection is closed, whatever happens on the way
    alpha = ops.alphabet(noreplies=(None, False))
    if tier == "quick":
        want = {"get", "set", "get_many", "quit", "set_many", "delete_many", "incr", "gets", "stats", "version"}
        seen = set()
        out = []
        for o in alpha:
            key = (o.name, o.kwargs.get("noreply"))
            if o.name in want and key not in seen:
                seen.add(key)
                out.append(o)
        return out + refused
    return [o for o in alpha if o.name not in ("cache_memlimit",)] + refused


def configs():
    out = []
    for mps in (1, 2, None):
        for ign in (False, True):
            for idle in (0, IDLE, 2.5):
                if idle == 2.5 and (ign or mps == 1):
                    continue
                out.append((mps, ign, idle))
    return out


from pymemcache.client.base import Client as _Client


class RecClient(_Client):
    """Client that remembers whether one of its public calls raised (client_class seam)."""

    verif_raised = 0


def _wrap(name):
    orig = getattr(_Client, name)

    def f(self, *a, **k):
        try:
            return orig(self, *a, **k)
        except BaseException:
            self.verif_raised += 1
            raise

    f.__name__ = name
    return f


for _n in sorted({o.name for o in ops.alphabet()}):
    setattr(RecClient, _n, _wrap(_n))


class World:
    """One PooledClient over simnet plus the harness's own bookkeeping."""

    def __init__(self, cfg):
        mps, ign, idle = cfg
        self.cfg = cfg
        self.net = stacks.new_net(None, menu=MENU, servers=(stacks.H1,))
        self.net.slow_by = SLOW if idle != 2.5 else 2
        # a reply that takes longer than the idle timeout but arrives within the socket timeout (20 s)
        self.net.slow2_by = IDLE + 2 if idle != 2.5 else 3
        ops.preload(self.net)
        self.obj = stacks.build("pooled", self.net, max_pool_size=mps, ignore_exc=ign,
                                pool_idle_timeout=idle, default_noreply=False, connect_timeout=3, timeout=20)
        self.obj.client_class = RecClient
        self.pool = self.obj.client_pool
        self.released_at = {}  # id(client) -> true time of its last release
        self.ncall = 0
        self.bad = []
        self.checked = []  # clients handed out by the pool during the current call
        orig_get = self.pool.get

        def get():
            o = orig_get()
            self.checked.append(o)
            return o

        self.pool.get = get

    def idle_entries(self):
        now = self.net.clock.now
        out = []
        for c in self.pool._free_objs:
            true_age = now - self.released_at.get(id(c), now)
            impl_age = (now - c._last_used) if self.cfg[2] else 0
            out.append((c.sock is not None and c.sock.state == "connected",
                        min(true_age, (self.cfg[2] or IDLE) + 2), min(impl_age, (self.cfg[2] or IDLE) + 2)))
        return out

    def canon(self):
        # the order of the idle list matters: the pool hands out the oldest first
        return (tuple(self.idle_entries()), len(self.pool._used_objs))

    def overlap(self, dt):
        """Two overlapping calls (as two threads would make them), sequentially: a connection is held
        while another call runs on a second connection; the held one is released `dt` seconds later.
        Leaves two idle connections of different idle age (the older one first)."""
        pool, net = self.pool, self.net
        self.ncall += 1
        net.call = self.ncall
        self.checked = []
        try:
            held = pool.get()
        except RuntimeError:
            return  # no free slot (only after a transition that was already reported): nothing to overlap
        try:
            held.get("a")
            self.obj.get("b")
        except Exception:
            pass
        for c in self.checked:
            if c is not held:
                self.released_at[id(c)] = net.clock.now
        net.clock.advance(dt)
        pool.release(held)
        self.released_at[id(held)] = net.clock.now
        for c in self.checked:
            c.verif_raised = 0
        self.bad = []

    def advance(self, dt):
        self.net.clock.advance(dt)

    def step(self, op, choices):
        """Perform one public call under the given choice prefix; judge the transition."""
        net, pool = self.net, self.pool
        mps, ign, idle = self.cfg
        self.ncall += 1
        net.call = self.ncall
        before = [(c, e) for c, e in zip(list(pool._free_objs), self.idle_entries())]
        ev0 = len(net.events)
        self.checked = []
        ch = Chooser(tuple(choices))
        net.chooser = ch
        try:
            res = ("ret", op.call(self.obj))
        except Exception as e:
            res = ("exc", e)
        net.chooser = None
        now = net.clock.now
        events = net.events[ev0:]
        call = self.ncall
        bad = []
        # (a) nothing stays checked out
        if pool._used_objs:
            bad.append(("slot-not-returned", f"{len(pool._used_objs)} connection(s) still checked out after {op.label}"))
        # (e) ordinary failures never exhaust the pool
        if res[0] == "exc" and isinstance(res[1], RuntimeError) and "Too many objects" in str(res[1]):
            bad.append(("pool-exhausted", f"{op.label} raised {res[1]!r}"))
        # (b) a socket on which this call failed is closed by the end of the call
        failed_addrs = [h for h in net.hard if h[0] == call] or [(call, None, "no injected fault")]
        inner_raised = any(c.verif_raised for c in self.checked)
        for c in self.checked:
            c.verif_raised = 0
        used_socks = sorted({e[3] for e in events if e[2] in ("sendall", "recv", "sendall_fail", "recv_fail",
                                                               "connect", "connect_fail") and e[3] >= 0})
        if inner_raised:
            for sid in used_socks:
                s = net.socks[sid]
                if s.state != "closed":
                    bad.append(("failed-connection-kept",
                                f"{op.label} failed ({failed_addrs[0][2]}) on socket {sid}, which is still open afterwards"
                                + (" and idle in the pool" if any(c.sock is s for c in pool._free_objs) else "")))
        # no I/O on a socket that was already closed
        for e in events:
            if e[2].endswith("_on_closed"):
                bad.append(("io-on-closed-socket", f"{op.label}: {e[2]} on socket {e[3]}"))
        # reference model of reuse / expiry
        connected = [e for e in events if e[2] in ("socket", "connect")]
        # reference pool: scan the idle list from the oldest; close every expired entry met on the way; the
        # first entry that is not expired is handed out; only if there is none a new connection is opened
        first_ok = None
        for j, (c, (open_, true_age, impl_age)) in enumerate(before if op.name != "close" else ()):
            if idle and true_age > idle:
                if c in pool._free_objs or c in pool._used_objs:
                    bad.append(("expired-connection-reused",
                                f"{op.label} reused (or kept) a connection idle for {true_age}s (timeout {idle})"))
                elif c.sock is not None and c.sock.state != "closed":
                    bad.append(("expired-connection-not-closed",
                                f"{op.label}: connection idle for {true_age}s was dropped from the pool but not closed"))
            else:
                first_ok = (c, open_, true_age)
                break
        if first_ok is not None and first_ok[1] and connected:
            bad.append(("healthy-connection-not-reused",
                        f"{op.label} opened a new connection although an idle one aged "
                        f"{first_ok[2]}s (timeout {idle}) was available"))
        # a connection on which the call succeeded goes back to the pool open, however long the call took
        if not inner_raised and op.name not in ("quit", "close") and not [h for h in net.hard if h[0] == call]:
            for sid in used_socks:
                sk = net.socks[sid]
                idle_in_pool = any(c.sock is sk for c in pool._free_objs)
                if sk.state != "connected" or not idle_in_pool:
                    bad.append(("healthy-connection-dropped-at-release",
                                f"{op.label} succeeded on socket {sid}, which is "
                                + ("closed" if sk.state != "connected" else "not idle in the pool") + " afterwards"))
        # a call only disposes of the connection(s) it checked out (and of expired ones met on the way): a
        # healthy idle sibling that it did not use stays idle and open, whatever the call's own fate
        for c, (open_, true_age, impl_age) in before:
            if op.name == "close" or any(c is x for x in self.checked) or not open_ or (idle and true_age > idle):
                continue
            if not any(c is x for x in pool._free_objs) or c.sock is None or c.sock.state != "connected":
                bad.append(("idle-sibling-disposed",
                            f"{op.label} ({'failed' if inner_raised else 'ok'}) did not use the connection that was idle for "
                            f"{true_age}s (timeout {idle}), yet it is "
                            + ("no longer in the pool" if not any(c is x for x in pool._free_objs) else "closed") + " afterwards"))
        # close() leaves no connection open and none in the pool, even if something fails while it runs
        if op.name == "close":
            still = [s_.sid for s_ in net.socks if s_.state != "closed" and not s_.shadow]
            if still or pool._free_objs or pool._used_objs:
                bad.append(("open-after-close", f"after close() ({'raised' if res[0] == 'exc' else 'returned'}) sockets {still} are "
                            f"still open and the pool holds {len(pool._free_objs)} idle / {len(pool._used_objs)} used connection(s)"))
        # quit is a deliberate discard
        if op.name == "quit":
            for c in self.checked:
                if c in pool._free_objs and c.sock is not None and c.sock.state == "connected":
                    bad.append(("quit-connection-kept", "the connection used for quit() went back to the pool open"))
        for c in self.checked:
            self.released_at[id(c)] = now
        self.bad = bad
        return ch, res, events

def build(cfg, alpha, hist):
    w = World(cfg)
    for ev in hist:
        if ev[0] == "adv":
            w.advance(ev[1])
        elif ev[0] == "overlap":
            w.overlap(ev[1])
        else:
            w.step(alpha[ev[1]], ev[2])
    return w


def plans_for(cfg, alpha, hist, oi, bound):
    """All choice prefixes (<= bound deviations) for operation alpha[oi] after history hist."""
    out = []

    def run(ch):
        w = build(cfg, alpha, hist)
        w.ncall += 1
        w.net.call = w.ncall
        w.net.chooser = ch
        try:
            alpha[oi].call(w.obj)
        except Exception:
            pass
        return None

    explore.explore(run, bound, lambda ch, res: out.append(tuple(ch.choices[: max((i for i, c in enumerate(ch.choices) if c), default=-1) + 1])))
    return out


def _worker(job, chk):
    cfg, tier = job
    alpha = alphabet(tier)
    bound = 1 if tier == "quick" else 2
    max_depth = 6 if tier == "quick" else 8
    init = build(cfg, alpha, [])
    seen = {init.canon(): ()}
    frontier = collections.deque([()])
    depth_reached = 0
    transitions = 0
    fixpoint = True
    while frontier:
        hist = frontier.popleft()
        if len(hist) >= max_depth:
            fixpoint = False
            continue
        depth_reached = max(depth_reached, len(hist))
        idle = cfg[2]
        advs = () if not idle else (ADVANCES if idle == IDLE else (1, 2.2, 2.5, 3))
        events = [("adv", d) for d in advs]
        if cfg[0] != 1 and len(hist) < 3:
            events += [("overlap", d) for d in ((3, IDLE - 1) if idle == IDLE else ((1, 2.2) if idle else (0,)))]
        for oi in range(len(alpha)):
            for plan in plans_for(cfg, alpha, list(hist), oi, bound):
                events.append(("op", oi, plan))
        for ev in events:
            w = build(cfg, alpha, list(hist))
            src = w.canon()
            if ev[0] == "adv":
                w.advance(ev[1])
                label = ("adv", ev[1])
            elif ev[0] == "overlap":
                w.overlap(ev[1])
                label = ("overlap", ev[1])
            else:
                ch, res, evs = w.step(alpha[ev[1]], ev[2])
                label = (alpha[ev[1]].name, connoracle.devsig(ch))
                if w.bad:
                    clause, text = w.bad[0]
                    sig = f"{clause}|{alpha[ev[1]].name}|{connoracle.devsig(ch)}|max={cfg[0]}|ignore_exc={cfg[1]}|idle={cfg[2]}"
                    chk.violation(sig, text + f" [config max_pool_size={cfg[0]} ignore_exc={cfg[1]} "
                                  f"pool_idle_timeout={cfg[2]}; history {describe(alpha, hist)}; plan {ch.plan()}]",
                                  {"cfg": list(cfg), "tier": tier, "history": [list(h) for h in hist], "event": list(ev)})
                if ch.labels or any(e[0] in ("adv", "overlap") for e in hist):
                    chk.outcome((cfg, src, label, w.canon()))
            transitions += 1
            chk.add()
            k = w.canon()
            if k not in seen:
                seen[k] = hist + (ev,)
                frontier.append(hist + (ev,))
    chk.count("states", len(seen))
    chk.count("transitions", transitions)
    chk.count("traces_validated_against_impl", transitions)
    chk.maximum("max_depth", depth_reached)
    if not fixpoint:
        chk.cap(f"depth cap {max_depth} hit for config {cfg}")
    else:
        chk.count("configs_at_fixpoint")
    if cfg == (2, False, IDLE):
        longest = max(seen.values(), key=len)
        chk.sample({"config": {"max_pool_size": cfg[0], "ignore_exc": cfg[1], "pool_idle_timeout": cfg[2]},
                    "history_reaching_a_state": describe(alpha, longest), "states": len(seen)})


def describe(alpha, hist):
    out = []
    for ev in hist:
        if ev[0] == "adv":
            out.append(f"advance {ev[1]}s")
        elif ev[0] == "overlap":
            out.append(f"two overlapping calls, the second connection released {ev[1]}s later")
        else:
            out.append(f"{alpha[ev[1]].label} choices={list(ev[2])}")
    return out


def _threads_worker(job, chk):
    """The one clause of C09 that a schedule can break although every sequential history keeps it: "a healthy
    connection is reused rather than reopened until it has been idle longer than pool_idle_timeout".  Two threads
    on one ObjectPool (idle_timeout 10 s, one idle object): A checks out, keeps its object for 11 s (a slow call)
    and releases it; B checks out and releases.  No object is ever idle for more than 0 s, so under every
    interleaving (instruction granularity inside pool.py, C08's scheduler) nothing may be closed."""
    _, tier = job
    from checks import c08
    from vmc import sched
    from pymemcache.pool import ObjectPool
    bound = 2 if tier == "quick" else 3

    def run_once(ch):
        ins = c08.instrument("instruction")
        s = sched.Sched(ch)
        c08.SHIM.current = s
        clock = simnet.Clock()
        stacks.PROXY.current = clock
        log = {"created": []}
        removed = []

        def after_remove(o):
            o.removed += 1
            removed.append((o, clock.now))

        pool = ObjectPool(lambda: c08.Token(log), after_remove=after_remove, max_size=2,
                          lock_generator=lambda: sched.SimLock(s), idle_timeout=IDLE)
        pool.release(pool.get())

        def slow():
            o = pool.get()
            clock.advance(IDLE + 1)
            pool.release(o)
            return "done"

        def quick():
            o = pool.get()
            pool.release(o)
            return "done"

        s.add(slow)
        s.add(quick)
        ins.sched = s
        try:
            s.run()
        finally:
            ins.sched = None
        return s, pool, log, removed

    def on_exec(ch, res):
        s, pool, log, removed = res
        chk.add()
        if ch.cost:
            chk.outcome(("threads", len(log["created"]), len(removed), tuple(type(t.exc).__name__ if t.exc else "ok" for t in s.threads)))
        if removed:
            o, when = removed[0]
            chk.violation("healthy-connection-closed-as-idle|two-threads",
                          f"ObjectPool(idle_timeout={IDLE}), one idle object; thread A: get, hold for {IDLE + 1}s, release; thread B: get, "
                          f"release: {o!r} was closed as idle although no object was ever idle for longer than 0s [schedule: {ch.trace}]",
                          {"threads": True, "tier": tier, "choices": list(ch.choices)})

    n = sched.explore_costed(run_once, bound, on_exec)
    chk.count("thread_schedules", abs(n))


def _any_worker(job, chk):
    if job[0] == "threads":
        return _threads_worker(job, chk)
    return _worker(job, chk)


def run(chk):
    chk.rule = RULE
    chk.assumptions = ["operations are issued sequentially (concurrent checkouts are C08's subject), except for one two-thread harness on the idle-timeout clause, explored under C08's scheduler up to a preemption bound",
                       "the reference pool model: reuse the oldest idle connection unless idle > pool_idle_timeout; a failed exchange closes its socket"]
    chk.info["deviation_bound_per_operation"] = 1 if chk.tier == "quick" else 2
    runner.parallel(chk, _any_worker, [(c, chk.tier) for c in configs()] + [("threads", chk.tier)])
    chk.info["exhaustive_note"] = "frontier emptied (fixpoint) for every configuration unless caps_hit lists one"


def replay(detail):
    if detail.get("threads"):
        tmp = runner.Check(PROPERTY, LEVEL, detail.get("tier", "quick"), 0)
        _threads_worker(("threads", detail.get("tier", "quick")), tmp)
        return [v["what"] for v in tmp.violations.values()]
    cfg = tuple(detail["cfg"])
    alpha = alphabet(detail.get("tier", "quick"))
    hist = [tuple(h[:2]) + (tuple(h[2]),) if h[0] == "op" else tuple(h) for h in detail["history"]]
    ev = detail["event"]
    w = build(cfg, alpha, hist)
    ch, res, evs = w.step(alpha[ev[1]], tuple(ev[2]))
    for e in evs:
        print("   ", e)
    print("    result:", res[0], connoracle.short(res[1]), " pool:", w.canon())
    return [b[1] for b in w.bad]
