import os
import sys

sys.path.insert(0, os.path.dirname(os.path.dirname(os.path.abspath(__file__))))
os.environ.setdefault("PYTHONHASHSEED", "0")
from vmc import runner  # noqa: E402

sys.path.insert(0, runner.repo_dir())
