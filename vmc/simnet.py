"""simnet: a network, resolver, clock and reference servers owned by the checker.

Passed to pymemcache through its own seams: ``socket_module=SimSocketModule(net)``
and ``tls_context=SimTLSContext(net)``.  Every socket-level call is logged and —
when a chooser is installed — is a choice point of the explorer (vmc.explore).
"""

from __future__ import annotations

import errno
import socket as _realsocket
import ssl as _ssl
import sys
from collections import deque

from vmc.modelserver import ModelServer
from vmc.strictparse import parse_one, Malformed

T0 = 1_000_000_000.0


class Clock:
    """Virtual clock; also stands in for the `time` module inside pymemcache."""

    def __init__(self, now=T0):
        self.now = now
        self.sleeps = []

    def time(self):
        return self.now

    def sleep(self, d):
        self.sleeps.append(d)
        self.now += d

    def advance(self, d):
        self.now += d


class Interrupt(BaseException):
    """A gevent-style asynchronous timeout: BaseException but not an ordinary error."""


INTERRUPTS = {"kbd": KeyboardInterrupt, "sysexit": SystemExit, "baseexc": Interrupt}

# Fault menus: kind -> deviation labels (alternative 0, "ok", is implicit).
MENU_CONN = {
    "connect": ["refused", "timeout"],
    "sendall": ["reset", "timeout_after", "partial_timeout", "eintr_after"],
    "recv": ["timeout", "reset", "eof", "eintr", "short1", "cut_cr"],
    "reply": ["error", "client_error", "server_error", "garbage", "trunc_stall", "trunc_eof", "wrong_key", "bad_size"],
}
MENU_LIFECYCLE = dict(
    MENU_CONN,
    getaddrinfo=["gaierror"],
    socket=["oserror"],
    setsockopt=["oserror"],
    wrap_socket=["sslerror"],
    settimeout=["oserror", "valueerror"],
    close=["oserror"],
)
MENU_LIFECYCLE["connect"] = MENU_LIFECYCLE["connect"] + ["valueerror"]


ALL_POINTS = ("getaddrinfo", "socket", "setsockopt", "settimeout", "connect", "sendall", "recv", "close")


def with_interrupts(menu, kinds=("kbd", "sysexit", "baseexc"), points=ALL_POINTS):
    """menu plus asynchronous interruptions (BaseException) at the given socket calls; for
    calls with an effect (connect, sendall, close) both 'before' and 'after the effect'."""
    m = {k: list(v) for k, v in menu.items()}
    for p in points:
        m.setdefault(p, [])
        for k in kinds:
            m[p].append("int:" + k)
            if p in ("sendall", "connect", "close"):
                m[p].append("int_after:" + k)
            if p == "sendall":
                m[p].append("int_partial:" + k)
    return m


class ServerConn:
    """Server side of one connection."""

    __slots__ = ("server", "cid", "inbuf", "pipe", "eof", "stalled", "deviated", "reset")

    def __init__(self, server, cid):
        self.server = server
        self.cid = cid
        self.inbuf = b""
        self.pipe = deque()  # [bytes, tag]
        self.eof = False  # server closed its end (after queued bytes are read)
        self.stalled = False  # server stopped answering (truncation deviation)
        self.deviated = False  # some reply on this connection was replaced/truncated
        self.reset = False

    def available(self):
        return sum(len(seg[0]) for seg in self.pipe)

    def peek(self, n):
        out = b""
        for seg in self.pipe:
            out += seg[0]
            if len(out) >= n:
                break
        return out[:n]

    def take(self, n):
        out = []
        tags = []
        while n > 0 and self.pipe:
            seg = self.pipe[0]
            d = seg[0]
            if len(d) <= n:
                out.append(d)
                n -= len(d)
                self.pipe.popleft()
            else:
                out.append(d[:n])
                seg[0] = d[n:]
                n = 0
            if not tags or tags[-1] != seg[1]:
                tags.append(seg[1])
        return b"".join(out), tuple(tags)


class SimNet:
    def __init__(self, chooser=None, menu=None, trunc="quick", now=T0, delivery="whole"):
        self.clock = Clock(now)
        # default answer of recv(): 'whole' = everything queued (up to n); 'segment' = at most
        # one command's reply per recv (pipelined replies arrive in separate TCP segments);
        # 'byte' = one byte per recv; 'lf' = every piece ends just before a line feed.
        # A configuration, not a deviation.
        self.delivery = delivery
        self.chooser = chooser
        self.menu = menu if menu is not None else MENU_CONN
        self.trunc = trunc
        self.servers: dict = {}  # addrkey -> ModelServer
        self.hosts: dict = {}  # hostname -> [(family, ip)]
        self.events: list = []
        self.socks: list = []
        self.call = 0
        self.blocked: list = []  # (call, sockid): a read that could never complete
        self.raw_io: list = []  # I/O on an unwrapped socket although TLS is configured
        self.soft: list = []  # (call, addr, label) of soft reply deviations that took effect
        self.force_reply = None  # harness: label of a reply deviation to apply to the next VALUE reply
        self.tls_required = False  # harness: every connection of this scenario is meant to be TLS-wrapped
        self.failing: dict = {}  # addrkey -> 'refused' | 'timeout' | 'reset' | 'unreach'  (persistent, C13)
        self.sent: list = []  # (call, sockid, bytes) everything handed to sendall and delivered
        self.rx: list = []  # (call, sockid, bytes) everything returned by recv
        self.hard: list = []  # (call, addrkey, label): deviations that make an exchange fail
        self.owner_classes = ()
        self.nconn = 0
        self.slow_by = 0
        self.slow2_by = 0
        self.cut_next = None
        self.sched = None  # E3: scheduler to notify at every socket call
        self.socket_guard = None  # E3: callable(sock, what) checking who uses a socket

    # -- configuration -----------------------------------------------------
    def add_server(self, host, port=None, **kw) -> ModelServer:
        key = ("unix", host) if port is None else ("tcp", host, int(port))
        srv = ModelServer(self.clock, name=":".join(map(str, key[1:])), **kw)
        self.servers[key] = srv
        return srv

    def module(self):
        return SimSocketModule(self)

    def tls(self):
        return SimTLSContext(self)

    # -- plumbing ----------------------------------------------------------
    def log(self, kind, sock, *extra):
        self.events.append((len(self.events), self.call, kind, sock.sid if sock is not None else -1) + extra)

    def choose(self, kind, labels):
        """labels: deviation labels applicable here. Returns 'ok' or one label."""
        ch = self.chooser
        if ch is None or not labels:
            return "ok"
        i = ch.choose(kind, labels)
        return "ok" if i == 0 else labels[i - 1]

    def trunc_positions(self, n):
        if n <= 1:
            return []
        if self.trunc == "all":
            return list(range(1, n))
        return sorted({1, n // 2, n - 1} - {0, n})

    def open_sockets(self):
        return [s for s in self.socks if s.state != "closed" and not s.shadow]

    def find_owner(self):
        if not self.owner_classes:
            return None
        f = sys._getframe(2)
        depth = 0
        while f is not None and depth < 12:
            if f.f_code.co_name == "_connect":
                o = f.f_locals.get("self")
                if isinstance(o, self.owner_classes):
                    return o
            f = f.f_back
            depth += 1
        return None


class SimSocketModule:
    """What pymemcache receives as socket_module."""

    AF_UNIX = _realsocket.AF_UNIX
    AF_INET = _realsocket.AF_INET
    AF_INET6 = _realsocket.AF_INET6
    AF_UNSPEC = _realsocket.AF_UNSPEC
    SOCK_STREAM = _realsocket.SOCK_STREAM
    IPPROTO_TCP = _realsocket.IPPROTO_TCP
    TCP_NODELAY = _realsocket.TCP_NODELAY
    SOL_SOCKET = _realsocket.SOL_SOCKET
    SHUT_RD, SHUT_WR, SHUT_RDWR = _realsocket.SHUT_RD, _realsocket.SHUT_WR, _realsocket.SHUT_RDWR
    SO_KEEPALIVE = _realsocket.SO_KEEPALIVE
    error = OSError
    timeout = _realsocket.timeout
    gaierror = _realsocket.gaierror

    def __init__(self, net: SimNet):
        self.net = net

    def getaddrinfo(self, host, port, family=0, type=0, proto=0, flags=0):
        net = self.net
        c = net.choose("getaddrinfo", net.menu.get("getaddrinfo", ()))
        net.events.append((len(net.events), net.call, "getaddrinfo", -1, host, c))
        if c == "gaierror":
            net.hard.append((net.call, ("tcp", host, int(port)), c))
            raise _realsocket.gaierror(-2, "Name or service not known")
        if c.startswith("int:"):
            raise INTERRUPTS[c[4:]]()
        addrs = net.hosts.get(host)
        if addrs is None:
            fam = self.AF_INET6 if ":" in host else self.AF_INET
            addrs = [(fam, host)]
        return [(fam, self.SOCK_STREAM, self.IPPROTO_TCP, "", (ip, int(port))) for fam, ip in addrs]

    def socket(self, family=-1, type=-1, proto=-1):
        net = self.net
        c = net.choose("socket", net.menu.get("socket", ()))
        if c == "oserror":
            net.events.append((len(net.events), net.call, "socket_fail", -1, int(family)))
            raise OSError(errno.EAFNOSUPPORT, "Address family not supported by protocol")
        if c.startswith("int:"):
            raise INTERRUPTS[c[4:]]()
        s = SimSocket(net, family)
        s.owner = net.find_owner()
        net.log("socket", s, int(family))
        return s


class SimSocket:
    def __init__(self, net, family, inner=None):
        self.net = net
        self.sid = len(net.socks)
        net.socks.append(self)
        self.family = family
        self.state = "new"  # new -> connected -> closed
        self.timeout = "unset"
        self.conn = None
        self.addr = None
        self.owner = None
        self.opts = []
        self.inner = inner  # TLS wrapper: the raw socket underneath
        self.shadow = False  # raw socket that has been wrapped (its life is the wrapper's)
        self.tls = inner is not None
        self.close_calls = 0
        self.thread_guard = None  # E3: callable checking the calling thread holds this socket
        if inner is not None:
            self.state = inner.state
            self.timeout = inner.timeout
            self.owner = inner.owner
            self.opts = inner.opts
            inner.shadow = True

    def __repr__(self):
        return f"<SimSocket {self.sid} {self.state}>"

    # -- helpers -----------------------------------------------------------
    def _io_guard(self, what):
        net = self.net
        if net.sched is not None:
            net.sched.point("sock")
        if net.socket_guard is not None:
            net.socket_guard(self, what)
        if self.shadow or (net.tls_required and not self.tls and what in ("sendall", "recv")):
            net.raw_io.append((net.call, self.sid, what))
        if self.state == "closed":
            net.log(what + "_on_closed", self)
            raise OSError(errno.EBADF, "Bad file descriptor")

    def _maybe_interrupt(self, c):
        if c.startswith("int:"):
            self.net.log("interrupt", self, c)
            raise INTERRUPTS[c[4:]]()

    # -- socket API used by pymemcache --------------------------------------
    def setsockopt(self, level, opt, val):
        net = self.net
        self._io_guard("setsockopt")
        c = net.choose("setsockopt", net.menu.get("setsockopt", ()))
        self._maybe_interrupt(c)
        if c == "oserror":
            net.log("setsockopt_fail", self, int(opt))
            raise OSError(errno.ENOPROTOOPT, "Protocol not available")
        self.opts.append((int(level), int(opt), val))
        net.log("setsockopt", self, int(level), int(opt), val)

    def settimeout(self, t):
        net = self.net
        if self.state == "closed":
            net.log("settimeout_on_closed", self)
            raise OSError(errno.EBADF, "Bad file descriptor")
        c = net.choose("settimeout", net.menu.get("settimeout", ()))
        self._maybe_interrupt(c)
        if c == "oserror":
            net.log("settimeout_fail", self)
            raise OSError(errno.EBADF, "Bad file descriptor")
        if c == "valueerror":  # a failure that is not an OSError (bad timeout value, overflow, ...)
            net.log("settimeout_fail", self)
            raise ValueError("Timeout value out of range")
        self.timeout = t
        if self.inner is not None:
            self.inner.timeout = t
        net.log("settimeout", self, t)

    def connect(self, addr):
        net = self.net
        self._io_guard("connect")
        if self.state != "new":
            raise OSError(errno.EISCONN, "already connected")
        if isinstance(addr, tuple):
            key = ("tcp", addr[0], int(addr[1]))
        else:
            key = ("unix", addr)
        self.addr = key
        persistent = net.failing.get(key)
        if persistent == "refused":
            net.log("connect_fail", self, key, "refused", self.timeout)
            raise ConnectionRefusedError(errno.ECONNREFUSED, "Connection refused")
        if persistent == "timeout":
            net.log("connect_fail", self, key, "timeout", self.timeout)
            raise _realsocket.timeout("timed out")
        if persistent == "unreach":
            net.log("connect_fail", self, key, "unreach", self.timeout)
            raise OSError(errno.EHOSTUNREACH, "No route to host")
        c = net.choose("connect", net.menu.get("connect", ()))
        if c.startswith("int:"):
            net.log("connect_fail", self, key, c, self.timeout)
            self._maybe_interrupt(c)
        if c != "ok":
            net.hard.append((net.call, key, c))
        if c == "refused":
            net.log("connect_fail", self, key, "refused", self.timeout)
            raise ConnectionRefusedError(errno.ECONNREFUSED, "Connection refused")
        if c == "timeout":
            net.log("connect_fail", self, key, "timeout", self.timeout)
            raise _realsocket.timeout("timed out")
        if c == "valueerror":
            net.log("connect_fail", self, key, "valueerror", self.timeout)
            raise OverflowError("bind(): port must be 0-65535.")
        srv = net.servers.get(key)
        if srv is None or srv.is_shut_down:
            net.log("connect_fail", self, key, "noserver", self.timeout)
            raise ConnectionRefusedError(errno.ECONNREFUSED, "Connection refused")
        net.nconn += 1
        self.conn = ServerConn(srv, net.nconn)
        self.state = "connected"
        if self.inner is not None:
            self.inner.state = "connected"
        net.log("connect", self, key, self.timeout)
        if c.startswith("int_after:"):
            net.log("interrupt", self, c)
            raise INTERRUPTS[c[10:]]()

    def sendall(self, data):
        net = self.net
        self._io_guard("sendall")
        if self.state != "connected":
            raise OSError(errno.ENOTCONN, "not connected")
        conn = self.conn
        persistent = net.failing.get(self.addr)
        if persistent is not None or conn.reset:
            net.log("sendall_fail", self, "reset", self.timeout)
            conn.reset = True
            raise ConnectionResetError(errno.ECONNRESET, "Connection reset by peer")
        c = net.choose("sendall", net.menu.get("sendall", ()))
        if c != "ok":
            net.hard.append((net.call, self.addr, c))
        if c.startswith("int:"):
            net.log("sendall_fail", self, c, self.timeout)
            self._maybe_interrupt(c)
        if c == "reset":
            conn.reset = True
            net.log("sendall_fail", self, "reset", self.timeout)
            raise ConnectionResetError(errno.ECONNRESET, "Connection reset by peer")
        data = bytes(data)
        if c == "partial_timeout" or c.startswith("int_partial:"):
            # only the first half of the request reaches the server before the call is cut short
            part = data[: max(1, len(data) // 2)]
            net.sent.append((net.call, self.sid, part))
            net.log("sendall_fail", self, c, self.timeout)
            self._deliver(part)
            if c == "partial_timeout":
                raise _realsocket.timeout("timed out")
            raise INTERRUPTS[c[12:]]()
        net.sent.append((net.call, self.sid, data))
        net.log("sendall", self, len(data), self.timeout)
        self._deliver(data)
        if c == "timeout_after":
            net.log("sendall_fail", self, "timeout_after", self.timeout)
            raise _realsocket.timeout("timed out")
        if c == "eintr_after":  # a signal arrives when the request is already on its way
            net.log("sendall_fail", self, "eintr_after", self.timeout)
            raise OSError(errno.EINTR, "Interrupted system call")
        if c.startswith("int_after:"):
            net.log("interrupt", self, c)
            raise INTERRUPTS[c[10:]]()

    def _deliver(self, data):
        """Server side: parse and execute everything that is complete."""
        net = self.net
        conn = self.conn
        if conn.eof or conn.stalled:
            return  # nobody is listening any more
        conn.inbuf += data
        pos = 0
        buf = conn.inbuf
        srv = conn.server
        while pos < len(buf):
            item, npos = parse_one(buf, pos)
            if item is None:
                break
            pos = npos
            rep, outcome, close = srv.execute(item)
            c = "ok"
            if rep and net.force_reply is not None and rep.startswith(b"VALUE "):
                c, net.force_reply = net.force_reply, None  # scripted one-shot deviation (no explorer involved)
            elif rep and net.chooser is not None and not isinstance(item, Malformed):
                c = self._reply_choice(rep)
            if c == "odd_cas":
                # a soft deviation: the item arrives intact, only its cas field is not a number ("12?4");
                # whether that is a hit with an odd token or a failure is the client's call - it is not in net.hard
                head, _, tail = rep.partition(b"\r\n")
                f = head.split(b" ")
                f[4] = b"12?4"
                rep = b" ".join(f) + b"\r\n" + tail
                net.soft.append((net.call, self.addr, c))
                c = "ok"
            if c != "ok":
                conn.deviated = True
                net.hard.append((net.call, self.addr, c))
                outcome = ("deviated", c, outcome)
                if c == "error":
                    rep = b"ERROR\r\n"
                elif c == "client_error":
                    rep = b"CLIENT_ERROR bad command line format\r\n"
                elif c == "server_error":
                    rep = b"SERVER_ERROR injected\r\n"
                elif c == "garbage":
                    rep = b"GARBAGE 1 2\r\n"
                elif c == "wrong_key":
                    rep = rep.replace(b"VALUE ", b"VALUE zz", 1)
                elif c == "bad_size":
                    # a header whose <bytes> field is not a number ("VALUE k 0 six"): the reader fails with a
                    # ValueError, which is neither an OSError nor a MemcacheError
                    head, _, tail = rep.partition(b"\r\n")
                    f = head.split(b" ")
                    f[3] = b"six"
                    rep = b" ".join(f) + b"\r\n" + tail
                else:
                    kind, cut = c
                    rep = rep[:cut]
                    if kind == "trunc_stall":
                        conn.stalled = True
                    else:
                        conn.eof = True
            srv.log.append((net.call, conn.cid, item, outcome))
            if rep:
                conn.pipe.append([rep, net.call])
            if close:
                conn.eof = True
            if conn.eof or conn.stalled:
                pos = len(buf)
                break
        conn.inbuf = buf[pos:]

    def _reply_choice(self, rep):
        net = self.net
        labels = net.menu.get("reply")
        if not labels:
            return "ok"
        # expand truncation labels by cut position; wrong_key only for value replies
        exp = []
        for lab in labels:
            if lab in ("trunc_stall", "trunc_eof"):
                for cut in net.trunc_positions(len(rep)):
                    exp.append((lab, cut))
            elif lab in ("wrong_key", "bad_size"):
                if rep.startswith(b"VALUE "):
                    exp.append(lab)
            elif lab == "odd_cas":
                if rep.startswith(b"VALUE ") and len(rep.partition(b"\r\n")[0].split(b" ")) == 5:
                    exp.append(lab)
            else:
                exp.append(lab)
        i = net.chooser.choose("reply", exp)
        return "ok" if i == 0 else exp[i - 1]

    def recv(self, n):
        net = self.net
        self._io_guard("recv")
        if self.state != "connected":
            raise OSError(errno.ENOTCONN, "not connected")
        conn = self.conn
        if conn.reset or net.failing.get(self.addr) == "reset":
            net.log("recv_fail", self, "reset", self.timeout)
            raise ConnectionResetError(errno.ECONNRESET, "Connection reset by peer")
        avail = conn.available()
        if avail == 0:
            if conn.eof:
                net.log("recv", self, 0, (), self.timeout)
                return b""
            if conn.stalled:
                net.log("recv_fail", self, "timeout(stalled)", self.timeout)
                raise _realsocket.timeout("timed out")
            # nothing queued and nothing owed: this read can never complete
            net.blocked.append((net.call, self.sid))
            net.log("recv_blocks_forever", self, self.timeout)
            raise _realsocket.timeout("timed out")
        limit = min(n, avail)
        if net.cut_next is not None:
            # scripted single cut: this recv returns at most cut_next bytes, later ones are unrestricted
            if 0 < net.cut_next < limit:
                limit = net.cut_next
            net.cut_next = None
        if net.delivery == "lf":
            # every piece ends just before a line feed (so "\r" and "\n" of a terminator never arrive together)
            data = conn.peek(limit)
            p = data.find(b"\n", 1)
            if p != -1:
                limit = p
        elif net.delivery != "whole":
            limit = 1 if net.delivery == "byte" else min(limit, len(conn.pipe[0][0]))
        c = "ok"
        if net.chooser is not None:
            labels = net.menu.get("recv")
            if labels:
                app = []
                for lab in labels:
                    if lab == "short1":
                        if limit > 1:
                            app.append(lab)
                    elif lab == "cut_cr":
                        data = conn.peek(limit)
                        p = data.find(b"\r\n")
                        if p != -1 and 0 < p + 1 < len(data):
                            app.append(lab)
                    else:
                        app.append(lab)
                c = net.choose("recv", app)
        if c not in ("ok", "short1", "cut_cr", "eintr", "slow", "slow2"):
            net.hard.append((net.call, self.addr, c))
        if c == "ok":
            data, tags = conn.take(limit)
        elif c == "slow":  # the reply takes a while: time passes during the call
            net.clock.advance(net.slow_by)
            data, tags = conn.take(limit)
        elif c == "slow2":  # a longer wait (still within the socket timeout the harness configured)
            net.clock.advance(net.slow2_by)
            data, tags = conn.take(limit)
        elif c == "short1":
            data, tags = conn.take(1)
        elif c == "cut_cr":
            data = conn.peek(limit)
            data, tags = conn.take(data.find(b"\r\n") + 1)
        elif c == "timeout":
            net.log("recv_fail", self, "timeout", self.timeout)
            raise _realsocket.timeout("timed out")
        elif c == "reset":
            conn.reset = True
            net.log("recv_fail", self, "reset", self.timeout)
            raise ConnectionResetError(errno.ECONNRESET, "Connection reset by peer")
        elif c == "eof":
            conn.eof = True
            conn.pipe.clear()
            net.log("recv", self, 0, (), self.timeout)
            return b""
        elif c == "eintr":
            net.log("recv_fail", self, "eintr", self.timeout)
            raise OSError(errno.EINTR, "Interrupted system call")
        elif c.startswith("int:"):
            net.log("recv_fail", self, c, self.timeout)
            raise INTERRUPTS[c[4:]]()
        else:
            raise AssertionError(c)
        net.log("recv", self, len(data), tags, self.timeout)
        net.rx.append((net.call, self.sid, data))
        return data

    def shutdown(self, how):
        """Like socket.shutdown(): fails with ENOTCONN on a socket that is not (or no longer) connected."""
        net = self.net
        conn = self.conn
        if self.state != "connected" or conn is None or conn.reset or (conn.eof and not conn.pipe):
            net.log("shutdown_fail", self)
            raise OSError(errno.ENOTCONN, "Transport endpoint is not connected")
        net.log("shutdown", self, how)
        conn.eof = True

    def close(self):
        net = self.net
        if net.sched is not None:
            net.sched.point("sock")
        self.close_calls += 1
        c = "ok"
        if self.state != "closed":
            c = net.choose("close", net.menu.get("close", ()))
        if c.startswith("int:"):
            # interrupted before the descriptor was released
            net.log("close_interrupted", self, c)
            raise INTERRUPTS[c[4:]]()
        was = self.state
        self.state = "closed"
        if self.inner is not None:
            self.inner.state = "closed"
        net.log("close", self, was)
        if c == "oserror":
            raise OSError(errno.EIO, "close failed")
        if c.startswith("int_after:"):
            raise INTERRUPTS[c[10:]]()


class SimTLSContext:
    def __init__(self, net):
        self.net = net

    def wrap_socket(self, sock, server_hostname=None, **kw):
        net = self.net
        c = net.choose("wrap_socket", net.menu.get("wrap_socket", ()))
        if c == "sslerror":
            net.log("wrap_fail", sock)
            raise _ssl.SSLError("handshake setup failed")
        if c.startswith("int:"):
            raise INTERRUPTS[c[4:]]()
        w = SimSocket(net, sock.family, inner=sock)
        net.log("wrap", w, sock.sid, server_hostname)
        return w
