"""AbstractCache: the API-level reference for C05 - a plain in-memory map with expiry and
versions, with methods named after the client's and returning what the documented contract
promises.  It knows nothing about bytes on the wire and shares no code with ModelServer.
"""

from __future__ import annotations

MONTH = 2592000
WRAP = 1 << 64


class Raises:
    """Marker: the documented behaviour is an exception of this class name."""

    def __init__(self, name):
        self.name = name

    def __eq__(self, other):
        return isinstance(other, Raises) and other.name == self.name

    def __repr__(self):
        return f"Raises({self.name})"


class AbstractCache:
    item_max = 1024 * 1024  # larger values are refused by the server (and a refused set drops the old item)

    def __init__(self, now=0.0):
        self.now = now
        self.m = {}  # key -> [value, flags, dies_at or None, version]
        self.version = 0
        self.flush_at = None

    # -- snapshots -----------------------------------------------------------
    def dump(self):
        return ({k: tuple(v) for k, v in self.m.items()}, self.version, self.flush_at, self.now)

    @classmethod
    def load(cls, snap):
        a = cls()
        m, a.version, a.flush_at, a.now = snap
        a.m = {k: list(v) for k, v in m.items()}
        return a

    # -- internals -----------------------------------------------------------
    def _tick(self):
        if self.flush_at is not None and self.now >= self.flush_at:
            self.m = {}
            self.flush_at = None
        for k in [k for k, v in self.m.items() if v[2] is not None and v[2] <= self.now]:
            del self.m[k]

    def _dies(self, expire):
        if expire == 0:
            return None
        if expire < 0:
            return self.now  # gone at once
        if expire > MONTH:
            return float(expire)
        return self.now + expire

    def _put(self, key, value, flags, expire):
        self.version += 1
        self.m[key] = [value, flags, self._dies(expire), self.version]

    def contents(self):
        """key -> (value, flags, remaining lifetime or None, version)"""
        self._tick()
        return {k: (v[0], v[1], None if v[2] is None else v[2] - self.now, v[3]) for k, v in self.m.items()}

    def advance(self, d):
        self.now += d

    # -- the client's vocabulary ----------------------------------------------
    def set(self, key, value, expire=0, noreply=False, flags=0):
        self._tick()
        if len(value) > self.item_max:
            self.m.pop(key, None)
            return True if noreply else Raises("MemcacheServerError")
        self._put(key, value, flags, expire)
        return True

    def set_many(self, values, expire=0, noreply=False, flags=0):
        self._tick()
        refused = False
        for k, v in values.items():  # the server executes every command of the batch
            if len(v) > self.item_max:
                self.m.pop(k, None)
                refused = True
            else:
                self._put(k, v, flags, expire)
        if refused and not noreply:
            return Raises("MemcacheServerError")
        return []

    def add(self, key, value, expire=0, noreply=False, flags=0):
        self._tick()
        if key in self.m:
            return True if noreply else False
        self._put(key, value, flags, expire)
        return True

    def replace(self, key, value, expire=0, noreply=False, flags=0):
        self._tick()
        if key not in self.m:
            return True if noreply else False
        self._put(key, value, flags, expire)
        return True

    def _concat(self, key, value, noreply, front):
        self._tick()
        if key not in self.m:
            return True if noreply else False
        it = self.m[key]
        it[0] = value + it[0] if front else it[0] + value
        self.version += 1
        it[3] = self.version
        return True

    def append(self, key, value, expire=0, noreply=False, flags=0):
        return self._concat(key, value, noreply, False)

    def prepend(self, key, value, expire=0, noreply=False, flags=0):
        return self._concat(key, value, noreply, True)

    def cas(self, key, value, cas, expire=0, noreply=False, flags=0):
        self._tick()
        token = int(cas)
        if key not in self.m:
            return True if noreply else None
        if self.m[key][3] != token:
            return True if noreply else False
        self._put(key, value, flags, expire)
        return True

    def get(self, key, default=None):
        self._tick()
        return self.m[key][0] if key in self.m else default

    def gets(self, key, default=None, cas_default=None):
        self._tick()
        if key in self.m:
            return (self.m[key][0], str(self.m[key][3]).encode())
        return (default, cas_default)

    def get_many(self, keys):
        self._tick()
        return {k: self.m[k][0] for k in keys if k in self.m}

    def gets_many(self, keys):
        self._tick()
        return {k: (self.m[k][0], str(self.m[k][3]).encode()) for k in keys if k in self.m}

    def touch(self, key, expire=0, noreply=False):
        self._tick()
        if key not in self.m:
            return True if noreply else False
        self.m[key][2] = self._dies(expire)
        return True

    def gat(self, key, expire=0, default=None):
        r = self.get(key, default)
        if key in self.m:
            self.m[key][2] = self._dies(expire)
        return r

    def gats(self, key, expire=0, default=None, cas_default=None):
        r = self.gets(key, default, cas_default)
        if key in self.m:
            self.m[key][2] = self._dies(expire)
        return r

    def delete(self, key, noreply=False):
        self._tick()
        if key in self.m:
            del self.m[key]
            return True
        return True if noreply else False

    def delete_many(self, keys, noreply=False):
        self._tick()
        for k in keys:
            self.m.pop(k, None)
        return True

    def _arith(self, key, delta, noreply, sign):
        self._tick()
        if key not in self.m:
            return None
        v = self.m[key][0]
        if not (v.isdigit() and len(v) <= 20 and int(v) < WRAP):
            return None if noreply else Raises("MemcacheClientError")
        n = int(v)
        n = (n + delta) % WRAP if sign > 0 else max(n - delta, 0)
        self.m[key][0] = str(n).encode()
        self.version += 1
        self.m[key][3] = self.version
        return None if noreply else n

    def incr(self, key, value, noreply=False):
        return self._arith(key, value, noreply, +1)

    def decr(self, key, value, noreply=False):
        return self._arith(key, value, noreply, -1)

    def flush_all(self, delay=0, noreply=False):
        self._tick()
        if delay == 0:
            self.m = {}
            self.flush_at = None
        else:
            self.flush_at = self.now + delay
        return True
