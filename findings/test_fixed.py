"""One plain test per defect that the model-checking runs found and that was repaired by a `fix:` commit
in /repo.  Each test is the minimal failing input of the violation the check reported (see
known_findings.json, lines "fixed: property=..."), replayed without the explorer: it passes on the
repaired tree and fails on the pinned snapshot (4ba49b6).
"""
import socket

import pytest

from fakes import Module

from pymemcache.client.base import Client, PooledClient
from pymemcache.client.hash import HashClient
from pymemcache.exceptions import MemcacheIllegalInputError
from pymemcache.fallback import FallbackClient
from pymemcache.serde import CompressedSerde


def test_b348c0a_raw_command_reply_spanning_two_recv_results():
    # C01/C03: the bytes of the first recv() were dropped when the end token arrived in a later one
    m = Module([b"CONFIG cluster 0 10\r\n1\nh", b"ost|ip|1\n\r\nEND\r\n"])
    got = Client("/s", socket_module=m).raw_command(b"config get cluster", end_tokens=b"\n\r\nEND\r\n")
    assert got == b"CONFIG cluster 0 10\r\n1\nhost|ip|1"


def test_361c8ac_second_resolved_address_is_used_when_socket_creation_fails_for_the_first():
    # C06: fault plan "socket() fails for the first address, the second connects"
    info = [(socket.AF_INET6, socket.SOCK_STREAM, 6, "", ("::1", 11211, 0, 0)),
            (socket.AF_INET, socket.SOCK_STREAM, 6, "", ("127.0.0.1", 11211))]
    m = Module([b"END\r\n"], addrinfo=info, bad_families=(socket.AF_INET6,))
    c = Client(("localhost", 11211), socket_module=m)
    assert c.get("k") is None
    assert len(m.socks) == 1 and m.socks[0].closed == 0 and m.socks[0].addr == ("127.0.0.1", 11211)


def test_b801d41_failed_gets_and_gats_look_like_a_miss_with_ignore_exc():
    # C07: fault plan "recv: reset" under ignore_exc=True
    m = Module([ConnectionResetError(104, "reset")])
    assert PooledClient("/s", socket_module=m, ignore_exc=True).gats("k", expire=5) == (None, None)
    m = Module([ConnectionResetError(104, "reset")])
    assert HashClient(["/s"], socket_module=m, ignore_exc=True).gets("k") == (None, None)
    m = Module([ConnectionResetError(104, "reset")])
    assert HashClient(["/s"], socket_module=m, ignore_exc=True).gats("k", expire=5) == (None, None)
    m = Module([ConnectionResetError(104, "reset")])
    assert PooledClient("/s", socket_module=m, ignore_exc=True).gets("k", default="D", cas_default="C") == ("D", "C")


@pytest.mark.parametrize("exc", [KeyboardInterrupt, SystemExit, GeneratorExit])
def test_8222a66_interrupted_call_closes_the_connection_and_returns_the_pool_slot(exc):
    # C10: crash point "recv of get" x BaseException
    m = Module([exc()])
    c = Client("/s", socket_module=m)
    with pytest.raises(exc):
        c.get("k")
    assert c.sock is None and m.socks[0].closed == 1
    m = Module([exc()])
    p = PooledClient("/s", socket_module=m, max_pool_size=1)
    with pytest.raises(exc):
        p.get("k")
    assert len(p.client_pool._used_objs) == 0 and m.socks[0].closed == 1


@pytest.mark.parametrize("key", [" ", "\t", b"  ", "\r\n"])
def test_f4ad0c7_whitespace_only_keys_are_rejected(key):
    # C02/C20: key class "only separators"
    m = Module([b"END\r\n"])
    with pytest.raises(MemcacheIllegalInputError):
        Client("/s", socket_module=m).get(key)
    assert not m.socks or m.socks[0].sent == b""


def test_08cd156_flags_and_integer_arguments_cannot_inject():
    # C02: int dimension (flags given as text with a space; bool expire; gat/gats expire unchecked)
    m = Module([b"STORED\r\n"])
    c = Client("/s", socket_module=m)
    with pytest.raises(MemcacheIllegalInputError):
        c.set("k", b"v", flags="1 1", noreply=False)
    assert not m.socks or m.socks[0].sent == b""
    m = Module([b"STORED\r\n"])
    Client("/s", socket_module=m).set("k", b"v", expire=True, noreply=False)
    assert m.socks[0].sent == b"set k 0 1 1\r\nv\r\n"
    m = Module([b"END\r\n"])
    with pytest.raises(MemcacheIllegalInputError):
        Client("/s", socket_module=m).gat("k", expire="1 k2")
    assert not m.socks or m.socks[0].sent == b""


def test_ec32ecb_pooled_client_forwards_its_encoding():
    # C16: configuration encoding="utf8", str value with a non-ASCII character
    m = Module([b"STORED\r\n"])
    assert PooledClient("/s", socket_module=m, encoding="utf8").set("k", "\xe9", noreply=False) is True
    assert m.socks[0].sent == b"set k 0 0 2\r\n\xc3\xa9\r\n"


def test_fdb7368_hash_client_set_many_marks_the_server_failing_with_ignore_exc():
    # C13: history "server fails; set_many" with ignore_exc=True
    m = Module()
    m.send_error = ConnectionResetError(104, "reset")
    h = HashClient(["/s"], socket_module=m, ignore_exc=True)
    assert h.set_many({"a": b"1"}, noreply=False) == ["a"]
    assert "/s" in h._failed_clients


def test_4108859_pooled_client_reports_illegal_keys_with_ignore_exc():
    # C20: entry point PooledClient(ignore_exc=True).get
    m = Module([b"END\r\n"])
    with pytest.raises(MemcacheIllegalInputError):
        PooledClient("/s", socket_module=m, ignore_exc=True).get("bad key")


def test_0926039_compressed_serde_serializes_long_ints():
    # C15: value 10**500 (its text is longer than min_compress_len)
    s = CompressedSerde()
    value, flags = s.serialize("k", 10 ** 500)
    assert s.deserialize("k", value, flags) == 10 ** 500


class _Cache:
    def __init__(self, gets=(None, None), many=None):
        self._gets, self._many, self.asked = gets, many or {}, []

    def gets(self, key):
        self.asked.append(("gets", key))
        return self._gets

    def get_many(self, keys):
        keys = list(keys)
        self.asked.append(("get_many", keys))
        return {k: v for k, v in self._many.items() if k in keys}


def test_14afd78_fallback_client_reads_fall_through_on_a_miss():
    # C18: assignment (miss, hit) for gets; one-shot iterator of keys for get_many
    first, second = _Cache(), _Cache(gets=(b"v", b"7"))
    assert FallbackClient([first, second]).gets("k") == (b"v", b"7")
    first, second = _Cache(), _Cache(many={"a": b"1"})
    assert FallbackClient([first, second]).get_many(iter(["a", "b"])) == {"a": b"1"}
    assert second.asked == [("get_many", ["a", "b"])]


def test_109a559_get_many_accepts_a_one_shot_iterator():
    # C04/C16: key collection form "iterator"
    m = Module([b"VALUE a 0 1\r\n1\r\nEND\r\n"])
    assert Client("/s", socket_module=m).get_many(iter(["a", "b"])) == {"a": b"1"}
    assert m.socks[0].sent == b"get a b\r\n"


def test_e2b37fe_hash_client_accepts_a_str_key_prefix():
    # C16: configuration key_prefix given as str
    m = Module([b"END\r\n"])
    h = HashClient(["/s"], socket_module=m, key_prefix="p:")
    assert h.get("k") is None
    assert m.socks[0].sent == b"get p:k\r\n"


def test_ff8f3e5_reconfigure_nodes_drops_nodes_that_are_no_longer_advertised():
    # C19: history "initial [n0, n1]; endpoint then advertises [n0]"
    from pymemcache.client.ext.aws_ec_client import AWSElastiCacheHashClient

    def reply(nodes):
        body = b"2\n" + b" ".join(b"%s|%s|%d" % (h.encode(), ip.encode(), p) for h, ip, p in nodes) + b"\n"
        return b"CONFIG cluster 0 %d\r\n%s\r\nEND\r\n" % (len(body), body)

    two = [("n0.cache.amazonaws.com", "10.0.0.1", 11212), ("n1.cache.amazonaws.com", "10.0.0.2", 11212)]
    m = Module([reply(two)], [reply(two[:1])])
    c = AWSElastiCacheHashClient("ep.cfg.cache.amazonaws.com:11211", socket_module=m)
    assert sorted(c.hasher.nodes) == ["10.0.0.1:11212", "10.0.0.2:11212"]
    c.reconfigure_nodes()
    assert sorted(c.hasher.nodes) == ["10.0.0.1:11212"]
    assert sorted(c.clients) == ["10.0.0.1:11212"]


def test_82fdbce_aws_client_with_use_pooling_can_be_constructed_and_reconfigured():
    # C19: configuration variant use_pooling=True
    from pymemcache.client.base import PooledClient as _Pooled
    from pymemcache.client.ext.aws_ec_client import AWSElastiCacheHashClient

    body = b"2\nn0.cache.amazonaws.com|10.0.0.1|11212\n"
    reply = b"CONFIG cluster 0 %d\r\n%s\r\nEND\r\n" % (len(body), body)
    m = Module([reply], [reply])
    c = AWSElastiCacheHashClient("ep.cfg.cache.amazonaws.com:11211", socket_module=m, use_pooling=True, max_pool_size=2)
    c.reconfigure_nodes()
    assert sorted(c.clients) == ["10.0.0.1:11212"] and isinstance(c.clients["10.0.0.1:11212"], _Pooled)


def test_69a997e_hash_client_closes_the_client_it_replaces_when_a_server_comes_back(monkeypatch):
    # C06 (failover histories): h1 refuses at 0 and 2, is back at 5 (the call that evicts it connects), and is
    # taken back into rotation at 12 with a NEW client - the old client's open socket was never closed
    import pymemcache.client.hash as H

    class Clock:
        now = 1000.0

        def time(self):
            return self.now

    clock = Clock()
    monkeypatch.setattr(H, "time", clock)
    m = Module([], [], [b"END\r\n"], [b"END\r\n"])
    h = HashClient([("h1", 11211)], socket_module=m, retry_attempts=1, retry_timeout=1, dead_timeout=6,
                   connect_timeout=1, timeout=1)
    m.refuse = True
    for t in (0, 2):
        clock.now = 1000.0 + t
        try:
            h.get("k")
        except OSError:
            pass
    m.refuse = False
    clock.now = 1005.0
    assert h.get("k") is None  # evicted by this call, which nevertheless reached the recovered server
    first = m.socks[-1]
    assert first.closed == 0
    clock.now = 1012.0
    assert h.get("k") is None  # back in rotation, on a new client
    assert m.socks[-1] is not first
    h.close()
    assert first.closed >= 1, "the socket of the replaced client is still open after HashClient.close()"
