"""Reference memcached: executes strictly parsed commands on an item store.

Semantics follow memcached's protocol.txt: flags, expiry (0 never; negative
already expired; <= 30 days relative; larger absolute), cas uniques, flush_all
with delay, 64-bit incr wrap / decr floor, item size limit, gat/gats/touch.
Known simplification: after `decr` real memcached pads a shortened counter
with spaces; the model stores the plain decimal.
"""

from __future__ import annotations

from vmc.strictparse import Cmd, Malformed, STORE_VERBS, U64

THIRTY_DAYS = 60 * 60 * 24 * 30
ITEM_MAX = 1024 * 1024


class Item:
    __slots__ = ("value", "flags", "exp", "cas")

    def __init__(self, value, flags, exp, cas):
        self.value = value
        self.flags = flags
        self.exp = exp  # 0 = never, else absolute virtual time at which it is gone
        self.cas = cas

    def astuple(self):
        return (self.value, self.flags, self.exp, self.cas)


class ModelServer:
    def __init__(self, clock, name="s", item_max=ITEM_MAX, shutdown_enabled=False,
                 version=b"1.6.21", cluster=None):
        self.clock = clock
        self.name = name
        self.items: dict = {}
        self.cas_counter = 0
        self.flush_deadline = None
        self.item_max = item_max
        self.shutdown_enabled = shutdown_enabled
        self.version = version
        self.cluster = cluster  # (version:int, [(fqdn, ip, port), ...]) for 'config get cluster'
        self.log: list = []  # (call_tag, conn_id, Cmd|Malformed, outcome)
        self.is_shut_down = False

    # -- store helpers -----------------------------------------------------
    def _abs_exp(self, exptime: int):
        now = self.clock.now
        if exptime == 0:
            return 0
        if exptime < 0:
            return -1  # already expired
        if exptime <= THIRTY_DAYS:
            return now + exptime
        return exptime if exptime > now else -1

    def _apply_flush(self):
        if self.flush_deadline is not None and self.clock.now >= self.flush_deadline:
            self.items.clear()
            self.flush_deadline = None

    def _live(self, key):
        it = self.items.get(key)
        if it is None:
            return None
        if it.exp != 0 and (it.exp < 0 or it.exp <= self.clock.now):
            del self.items[key]
            return None
        return it

    def _next_cas(self):
        self.cas_counter += 1
        return self.cas_counter

    def snapshot(self):
        """Live contents: key -> (value, flags, exp, cas) (applies flush/expiry lazily)."""
        self._apply_flush()
        out = {}
        for k in list(self.items):
            it = self._live(k)
            if it is not None:
                out[k] = it.astuple()
        return out

    # -- execution ---------------------------------------------------------
    def execute(self, cmd):
        """Returns (reply_bytes, outcome, close_connection)."""
        if isinstance(cmd, Malformed):
            return b"ERROR\r\n", ("malformed", cmd.reason), False
        self._apply_flush()
        v = cmd.verb
        if v in STORE_VERBS or v == b"cas":
            return self._store(cmd)
        if v in (b"get", b"gets", b"gat", b"gats"):
            with_cas = v in (b"gets", b"gats")
            out = []
            hits = []
            for k in cmd.keys:
                it = self._live(k)
                if it is None:
                    continue
                if v in (b"gat", b"gats"):
                    it.exp = self._abs_exp(cmd.exptime)
                    if self._live(k) is None:
                        pass  # touched into the past: still returned by this command
                head = b"VALUE " + k + b" " + str(it.flags).encode() + b" " + str(len(it.value)).encode()
                if with_cas:
                    head += b" " + str(it.cas).encode()
                out.append(head + b"\r\n" + it.value + b"\r\n")
                hits.append((k, it.flags, it.value, it.cas))
            out.append(b"END\r\n")
            return b"".join(out), ("values", tuple(hits)), False
        if v == b"delete":
            k = cmd.keys[0]
            if self._live(k) is not None:
                del self.items[k]
                return self._nr(cmd, b"DELETED\r\n"), ("deleted",), False
            return self._nr(cmd, b"NOT_FOUND\r\n"), ("not_found",), False
        if v in (b"incr", b"decr"):
            k = cmd.keys[0]
            it = self._live(k)
            if it is None:
                return self._nr(cmd, b"NOT_FOUND\r\n"), ("not_found",), False
            val = it.value
            if not (val.isdigit() and val.isascii() and len(val) <= 20 and int(val) <= U64):
                return (
                    self._nr(cmd, b"CLIENT_ERROR cannot increment or decrement non-numeric value\r\n"),
                    ("client_error", "non-numeric"),
                    False,
                )
            n = int(val)
            n = (n + cmd.delta) % (U64 + 1) if v == b"incr" else max(0, n - cmd.delta)
            it.value = str(n).encode()
            it.cas = self._next_cas()
            return self._nr(cmd, it.value + b"\r\n"), ("number", n), False
        if v == b"touch":
            k = cmd.keys[0]
            it = self._live(k)
            if it is None:
                return self._nr(cmd, b"NOT_FOUND\r\n"), ("not_found",), False
            it.exp = self._abs_exp(cmd.exptime)
            return self._nr(cmd, b"TOUCHED\r\n"), ("touched",), False
        if v == b"flush_all":
            if cmd.delay == 0:
                self.items.clear()
                self.flush_deadline = None
            else:
                self.flush_deadline = self.clock.now + cmd.delay
            return self._nr(cmd, b"OK\r\n"), ("ok",), False
        if v == b"version":
            return b"VERSION " + self.version + b"\r\n", ("version", self.version), False
        if v == b"stats":
            stats = [(b"pid", b"1"), (b"version", self.version), (b"curr_items", str(len(self.items)).encode()),
                     (b"rusage_user", b"0.25"), (b"hash_is_expanding", b"0")]
            if cmd.args:
                stats = [(b"arg:" + b"_".join(cmd.args), b"1")] + stats
            body = b"".join(b"STAT " + a + b" " + b + b"\r\n" for a, b in stats) + b"END\r\n"
            return body, ("stats", tuple(stats)), False
        if v in (b"cache_memlimit", b"verbosity"):
            return self._nr(cmd, b"OK\r\n"), ("ok",), False
        if v == b"quit":
            return b"", ("quit",), True
        if v == b"shutdown":
            if not self.shutdown_enabled:
                return b"ERROR: shutdown not enabled\r\n", ("error", "shutdown not enabled"), False
            self.is_shut_down = True
            return b"", ("shutdown",), True
        if v == b"config":
            if self.cluster is None:
                # (hangs_up_after_error: a proxy / serverless endpoint that drops the connection after ERROR)
                return b"ERROR\r\n", ("error", "no cluster config"), bool(getattr(self, "hangs_up_after_error", False))
            ver, nodes = self.cluster
            body = str(ver).encode() + b"\n" + b" ".join(
                f"{h}|{ip}|{p}".encode() for h, ip, p in nodes) + b"\n"
            rep = b"CONFIG cluster 0 " + str(len(body)).encode() + b"\r\n" + body + b"\r\nEND\r\n"
            return rep, ("config", ver, tuple(nodes)), False
        raise AssertionError("unhandled verb %r" % v)

    @staticmethod
    def _nr(cmd, reply):
        return b"" if cmd.noreply else reply

    def _store(self, cmd: Cmd):
        v = cmd.verb
        k = cmd.keys[0]
        it = self._live(k)

        def rep(line, outcome):
            return (b"" if cmd.noreply else line), outcome, False

        if len(cmd.data) > self.item_max:
            if v == b"set":
                self.items.pop(k, None)  # memcached drops the stale item on a failed set
            return rep(b"SERVER_ERROR object too large for cache\r\n", ("server_error", "too large"))
        if v == b"set":
            self.items[k] = Item(cmd.data, cmd.flags, self._abs_exp(cmd.exptime), self._next_cas())
            return rep(b"STORED\r\n", ("stored",))
        if v == b"add":
            if it is not None:
                return rep(b"NOT_STORED\r\n", ("not_stored",))
            self.items[k] = Item(cmd.data, cmd.flags, self._abs_exp(cmd.exptime), self._next_cas())
            return rep(b"STORED\r\n", ("stored",))
        if v == b"replace":
            if it is None:
                return rep(b"NOT_STORED\r\n", ("not_stored",))
            self.items[k] = Item(cmd.data, cmd.flags, self._abs_exp(cmd.exptime), self._next_cas())
            return rep(b"STORED\r\n", ("stored",))
        if v in (b"append", b"prepend"):
            if it is None:
                return rep(b"NOT_STORED\r\n", ("not_stored",))
            nv = it.value + cmd.data if v == b"append" else cmd.data + it.value
            if len(nv) > self.item_max:
                return rep(b"SERVER_ERROR object too large for cache\r\n", ("server_error", "too large"))
            it.value = nv
            it.cas = self._next_cas()
            return rep(b"STORED\r\n", ("stored",))
        if v == b"cas":
            if it is None:
                return rep(b"NOT_FOUND\r\n", ("not_found",))
            if it.cas != cmd.cas:
                return rep(b"EXISTS\r\n", ("exists",))
            self.items[k] = Item(cmd.data, cmd.flags, self._abs_exp(cmd.exptime), self._next_cas())
            return rep(b"STORED\r\n", ("stored",))
        raise AssertionError(v)
