"""Building the client stacks under test over a SimNet, with clocks owned by the checker."""

from __future__ import annotations

import pymemcache.client.hash as _hash
import pymemcache.client.retrying as _retrying
import pymemcache.pool as _pool
from pymemcache.client.base import Client, PooledClient
from pymemcache.client.hash import HashClient

from vmc import simnet


class _ClockProxy:
    """Stands in for the `time` module in pymemcache.client.hash / pymemcache.pool."""

    current = simnet.Clock()

    def time(self):
        return self.current.now

    def sleep(self, d):
        self.current.sleep(d)


PROXY = _ClockProxy()
_hash.time = PROXY
_pool.time = PROXY
_retrying.sleep = PROXY.sleep

H1 = ("h1", 11211)
H2 = ("h2", 11211)
H3 = ("h3", 11211)


def new_net(chooser=None, menu=None, trunc="quick", servers=(H1, H2), delivery="whole"):
    net = simnet.SimNet(chooser=chooser, menu=menu, trunc=trunc, delivery=delivery)
    net.owner_classes = (Client,)
    PROXY.current = net.clock
    for h, p in servers:
        net.add_server(h, p)
    return net


STACKS = ("client", "pooled", "hash1", "hash2", "hash2p")
USOCK = "/var/run/memcached/mc.sock"


def build(stack, net, **cfg):
    sm = net.module()
    if stack == "client":
        return Client(H1, socket_module=sm, **cfg)
    if stack == "pooled":
        cfg.setdefault("max_pool_size", 2)
        return PooledClient(H1, socket_module=sm, **cfg)
    if stack == "hash1":
        return HashClient([H1], socket_module=sm, **cfg)
    if stack == "hash1d":  # one failure marks the only server dead (for dead_timeout = 60 s)
        return HashClient([H1], socket_module=sm, retry_attempts=0, **cfg)
    if stack == "hashu1d":  # a UNIX-socket server and a TCP one; one failure evicts a server
        if ("unix", USOCK) not in net.servers:
            net.add_server(USOCK)
        return HashClient([USOCK, H1], socket_module=sm, retry_attempts=0, **cfg)
    if stack == "hash2":
        return HashClient([H1, H2], socket_module=sm, **cfg)
    if stack == "hash2p":
        return HashClient([H1, H2], socket_module=sm, use_pooling=True, max_pool_size=2, **cfg)
    if stack == "hash0":
        return HashClient([], socket_module=sm, **cfg)
    raise ValueError(stack)


def inner_clients(obj):
    """Every base Client object reachable from a stack object (idle or in use)."""
    if isinstance(obj, Client):
        return [obj]
    if isinstance(obj, PooledClient):
        p = obj.client_pool
        return list(p._free_objs) + list(p._used_objs)
    if isinstance(obj, HashClient):
        out = []
        for c in obj.clients.values():
            out.extend(inner_clients(c))
        return out
    return []


def reachable_socks(obj):
    return [c.sock for c in inner_clients(obj) if c.sock is not None]


def pools(obj):
    if isinstance(obj, PooledClient):
        return [obj.client_pool]
    if isinstance(obj, HashClient):
        return [c.client_pool for c in obj.clients.values() if isinstance(c, PooledClient)]
    return []
