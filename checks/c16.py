"""C16 - PooledClient, single-server HashClient and RetryingClient behave like Client.

Differential bounded-exhaustive enumeration: every key-addressed operation x an argument grid
(every parameter of Client's signature passed by keyword) x a configuration grid (every shared
constructor option) x server states (miss, numeric hit, text hit with flags, cas match/mismatch)
x client stacks.  Each stack runs against its own fresh reference server in the same state;
the parsed command list the server received, the result (value and type) or exception class,
the socket options and the timeouts in force must equal those of a plain Client.
"""

from __future__ import annotations

import itertools

from pymemcache.client.base import Client, PooledClient
from pymemcache.client.hash import HashClient
from pymemcache.client.retrying import RetryingClient
from pymemcache import serde as _serde

from vmc import runner, stacks
from vmc.strictparse import parse_all

PROPERTY = "C16"
LEVEL = "exploration"
RULE = (
    "cases = configuration (14) x server state (4) x operation with keyword arguments (~170) x stack (5 besides "
    "Client); each case is one call on a fresh stack over a fresh reference server; non-trivial = the baseline's "
    "outcome depends on the configuration or state (all do by construction); distinct = distinct (config, state, call)"
)
SERVER = ("h1", 11211)
K, K2 = "k", "m"
UK = "ké"


def dec7(key, value, flags):
    return value.decode("latin1").upper() if flags == 7 else value


def ser7(key, value):
    return (value, 0) if isinstance(value, bytes) else (repr(value).encode(), 7)


class Serde7:
    serialize = staticmethod(ser7)
    deserialize = staticmethod(dec7)


CONFIGS = {
    "default": {},
    "prefix": {"key_prefix": b"p:"},
    "default_noreply_off": {"default_noreply": False},
    "utf8": {"encoding": "utf8"},
    "unicode_keys": {"allow_unicode_keys": True},
    "serde": {"serde": Serde7()},
    "pickle": {"serde": _serde.pickle_serde},
    "legacy_serializer_pair": {"serializer": ser7, "deserializer": dec7},
    "legacy_deserializer_only": {"deserializer": dec7},
    "timeouts": {"connect_timeout": 3, "timeout": 7},
    "timeout_only": {"timeout": 7},
    # a str prefix that is not ASCII: whatever one class makes of it (today: the constructor refuses), all do
    "unicode_str_prefix": {"key_prefix": "caf\u00e9:", "allow_unicode_keys": True},
    "nonascii_str_prefix": {"key_prefix": "caf\u00e9:"},
    "connect_timeout_only": {"connect_timeout": 3},
    "no_delay": {"no_delay": True},
    "prefix+noreply_off+utf8": {"key_prefix": "q/", "default_noreply": False, "encoding": "utf8"},
    "tls": {"tls_context": "<per-net TLS context>"},
    "keepalive": {"socket_keepalive": "<KeepaliveOpts(idle=7, intvl=3, cnt=4)>"},
}


def materialise(cfg, net):
    """Configuration values that must be built per simulated network."""
    out = dict(cfg)
    if "tls_context" in out:
        out["tls_context"] = net.tls()
    if "socket_keepalive" in out:
        from pymemcache.client.base import KeepaliveOpts
        out["socket_keepalive"] = KeepaliveOpts(idle=7, intvl=3, cnt=4)
    return out
class OneShot:
    """Marker: the call gets a fresh one-shot iterator over these keys each time it is observed."""

    def __init__(self, keys, kind):
        self.keys, self.kind = list(keys), kind

    def make(self):
        return iter(self.keys) if self.kind == "iter" else (k for k in self.keys)

    def __repr__(self):
        return f"{self.kind}({self.keys!r})"


STATES = {
    "empty-value": b"set k 0 0 0\r\n\r\nset m 0 0 0\r\n\r\n",
    "miss": b"",
    "numeric": b"set k 0 0 1\r\n5\r\nset m 0 0 1\r\n6\r\n",
    "text": b"set k 7 0 1\r\nx\r\nset m 7 0 2\r\nyy\r\n",
}
STACKS = ("pooled", "hash", "hash_pooled", "retry1", "retry2")


def build(stack, net, cfg):
    sm = net.module()
    if stack == "client":
        return Client(SERVER, socket_module=sm, **cfg)
    if stack == "pooled":
        return PooledClient(SERVER, socket_module=sm, max_pool_size=2, **cfg)
    if stack == "hash":
        return HashClient([SERVER], socket_module=sm, **cfg)
    if stack == "hash_pooled":
        return HashClient([SERVER], socket_module=sm, use_pooling=True, max_pool_size=2, **cfg)
    if stack == "retry1":
        return RetryingClient(Client(SERVER, socket_module=sm, **cfg), attempts=1)
    if stack == "retry2":
        return RetryingClient(Client(SERVER, socket_module=sm, **cfg), attempts=2)
    raise ValueError(stack)


_SERDE_FAMILY = ("serde", "pickle", "legacy_serializer_pair", "legacy_deserializer_only")
_SINGLES = ("prefix", "default_noreply_off", "utf8", "unicode_keys", "serde", "pickle", "legacy_serializer_pair",
            "legacy_deserializer_only", "timeouts", "timeout_only", "connect_timeout_only", "no_delay", "tls", "keepalive")
_TIMEOUT_FAMILY = ("timeouts", "timeout_only", "connect_timeout_only")


def all_configs(tier):
    """quick: the 14 listed configurations; thorough: also every compatible pair of single-option ones."""
    out = dict(CONFIGS)
    if tier == "thorough":
        for a, b in itertools.combinations(_SINGLES, 2):
            if (a in _SERDE_FAMILY and b in _SERDE_FAMILY) or (a in _TIMEOUT_FAMILY and b in _TIMEOUT_FAMILY):
                continue
            out[f"{a}+{b}"] = {**CONFIGS[a], **CONFIGS[b]}
    return out


def calls(cfgname):
    """(label, callable(obj)) for every operation x keyword-argument combination."""
    parts = cfgname.split("+")
    key = UK if "unicode_keys" in parts else K
    values = [b"v", "café"]  # the str is legal only under a non-ASCII encoding: every stack must agree on that
    if any(p in ("serde", "pickle", "legacy_serializer_pair") for p in parts):
        values += ["text", 17, ("t", 1)]
    out = []

    def add(name, *args, **kw):
        kw = {k: v for k, v in kw.items() if v is not Ellipsis}
        label = f"{name}({', '.join(map(repr, args))}{', ' if args and kw else ''}{', '.join(f'{a}={b!r}' for a, b in kw.items())})"
        out.append((label, name, args, kw))

    E = Ellipsis
    for name in ("set", "add", "replace", "append", "prepend"):
        for v in values:
            for expire, noreply, flags in itertools.product((E, 5), (E, True, False, None), (E, 7)):
                add(name, key, v, expire=expire, noreply=noreply, flags=flags)
    for v in (values[0], values[-1]):
        for tok in (b"1", b"99"):
            for expire, noreply, flags in itertools.product((E, 5), (E, True, False, None), (E, 7)):
                add("cas", key, v, tok, expire=expire, noreply=noreply, flags=flags)
    for default in (E, "D"):
        add("get", key, default=default)
        for expire in (E, 5):
            add("gat", key, expire=expire, default=default)
    for default, casd in ((E, E), ("D", "C"), ("D", E)):
        add("gets", key, default=default, cas_default=casd)
        for expire in (E, 5):
            add("gats", key, expire=expire, default=default, cas_default=casd)
    add("get_many", [key, K2])
    add("gets_many", [K2, key])
    add("get_many", [])
    add("get_many", OneShot([key, K2], "iter"))
    add("gets_many", OneShot([K2, key], "generator"))
    add("delete_many", OneShot([key, K2], "iter"), noreply=False)
    many = [f"bulk{i}" for i in range(250)]
    add("get_many", many[:101])
    add("gets_many", many)
    add("delete_many", many[:130], noreply=False)
    add("set_many", {k: b"v" for k in many[:120]}, noreply=False)
    add("get_many", [key, K2, key])
    add("gets_many", [key, key])
    add("delete_many", [key, key, K2], noreply=False)
    for expire, noreply, flags in itertools.product((E, 5), (E, True, False, None), (E, 7)):
        add("set_many", {key: values[-1], K2: b"w"}, expire=expire, noreply=noreply, flags=flags)
    for noreply in (E, True, False, None):
        add("delete", key, noreply=noreply)
        add("delete_many", [key, K2], noreply=noreply)
        add("incr", key, 2, noreply=noreply)
        add("decr", key, 1, noreply=noreply)
        for expire in (E, 5):
            add("touch", key, expire=expire, noreply=noreply)
    # other spellings of a key: bytes, and bytes that are not text in any encoding (packed ids, digests)
    for k2 in (b"k", b"\xfa\xce\xb0\xba", b"\xe9", "k" * 200, b"\xff" * 240):
        add("get", k2)
        add("gets", k2)
        add("set", k2, b"v", noreply=False)
        add("cas", k2, b"v", b"1", noreply=False)
        add("incr", k2, 1, noreply=False)
        add("delete", k2, noreply=False)
        add("touch", k2, expire=5, noreply=False)
        add("gat", k2, expire=5)
        add("get_many", [k2, K2])
        add("gets_many", [K2, k2])
        add("set_many", {k2: b"v", K2: b"w"}, noreply=False)
        add("delete_many", [k2], noreply=False)
    # everything after the key by keyword, under the parameter names Client documents
    for name in ("set", "add", "replace", "append", "prepend"):
        add(name, key, value=b"v", expire=0, noreply=False, flags=3)
    add("cas", key, value=b"v", cas=b"1", expire=0, noreply=False, flags=3)
    add("incr", key, value=5, noreply=False)
    add("decr", key, value=1, noreply=False)
    add("incr", key, value=5)
    add("set_many", values={key: b"v"}, expire=0, noreply=False, flags=3)
    add("get_many", keys=[key, K2])
    add("gets_many", keys=[key, K2])
    add("delete_many", keys=[key, K2], noreply=False)
    # arguments of the wrong type: every stack refuses (or accepts) them exactly as Client does
    for bad in (29.7, "30", None, b"5", [5]):
        add("touch", key, expire=bad, noreply=False)
        add("set", key, b"v", expire=bad, noreply=False)
        add("gat", key, expire=bad)
        add("incr", key, bad, noreply=False)
        add("decr", key, bad, noreply=False)
        add("set", key, b"v", flags=bad, noreply=False)
        add("cas", key, b"v", bad, noreply=False)
    # dict-style access where the class offers it
    out.append((f"obj[{key!r}] = b'v'", "__setitem__", (key, b"v"), {}))
    out.append((f"obj[{key!r}]", "__getitem__", (key,), {}))
    out.append((f"del obj[{key!r}]", "__delitem__", (key,), {}))
    return out


FIRST_CALLS = [("incr(k,1)", "incr", (K, 1), {"noreply": False}),
               ("set(k, 2 MiB)", "set", (K, b"x" * (2 * 1024 * 1024)), {"noreply": False}),
               ("get(k)", "get", (K,), {}),
               ("cas(k,v,99)", "cas", (K, b"v", b"99"), {"noreply": False})]
FOLLOW_UPS = [("get(k)", "get", (K,), {}), ("set(m,w)", "set", (K2, b"w"), {"noreply": False}),
              ("incr(m,1)", "incr", (K2, 1), {"noreply": False}), ("get_many([k,m])", "get_many", ([K, K2],), {}),
              ("delete(k)", "delete", (K,), {"noreply": False})]


def observe(stack, cfg, state, call, first=None):
    label, name, args, kw = call
    net = stacks.new_net(None, servers=(SERVER,))
    srv = net.servers[("tcp",) + SERVER]
    pre = STATES[state]
    prefix = cfg.get("key_prefix", b"")
    if isinstance(prefix, str):
        prefix = prefix.encode()
    for it in parse_all(pre)[0]:
        it.keys = [prefix + k for k in it.keys]
        srv.execute(it)
        if cfg.get("allow_unicode_keys"):
            it.keys = [prefix + UK.encode("utf8")]
            srv.execute(it)
    try:
        obj = build(stack, net, materialise(cfg, net))
    except Exception as e:  # noqa - the constructor's verdict on the configuration is an observation too
        return ("exc", "constructor:" + type(e).__name__), [], [], []
    if not hasattr(type(obj), name) and name.startswith("__"):
        return None
    if first is not None:
        net.call = 7  # the first call of a two-call sequence: not compared itself
        try:
            getattr(obj, first[1])(*first[2], **first[3])
        except Exception:
            pass
    net.call = 1
    args = tuple(a.make() if isinstance(a, OneShot) else a for a in args)
    try:
        f = getattr(obj, name)
        res = ("ret", f(*args, **kw))
    except Exception as e:
        res = ("exc", type(e).__name__)

    def shorten(t):
        return tuple((x[:16] + b"...%d" % len(x)) if isinstance(x, bytes) and len(x) > 64 else x for x in t)

    cmds = [shorten(c.astuple()) if hasattr(c, "astuple") else ("MALFORMED", c.raw[:40]) for (call_, cid, c, o) in srv.log if call_ == 1]
    opts = sorted({(e[4], e[5], e[6]) for e in net.events if e[2] == "setsockopt"})
    touts = sorted({(e[2], repr(e[-1])) for e in net.events if e[2] in ("connect", "sendall", "recv")})
    # TLS: how many sockets were wrapped, and was anything sent or received on an unwrapped one
    touts.append(("tls-wrapped", sum(1 for e in net.events if e[2] == "wrap") > 0, len(net.raw_io)))
    return res, cmds, opts, touts


def same_result(a, b):
    if a[0] != b[0]:
        return False
    if a[0] == "exc":
        return a[1] == b[1]
    return a[1] == b[1] and type(a[1]) is type(b[1])


def _worker(job, chk):
    cfgname, state = job
    cfg = all_configs("thorough")[cfgname]
    for call in calls(cfgname):
        base = observe("client", cfg, state, call)
        chk.add()
        chk.outcome((cfgname, state, call[0]))
        for stack in STACKS:
            got = observe(stack, cfg, state, call)
            chk.add()
            if got is None:
                chk.count("operations_not_offered_by_a_stack")
                continue
            bres, bcmds, bopts, btouts = base
            res, cmds, opts, touts = got
            if stack == "retry2" and bres[0] == "exc" and any(isinstance(a, OneShot) for a in call[2]):
                # a one-shot iterator cannot be handed to a second attempt: outside what a retry can promise
                chk.count("retry_of_one_shot_iterator_not_judged")
                continue
            want_cmds = bcmds
            if stack == "retry2" and bres[0] == "exc" and not (call[1] == "__getitem__" and bres[1] == "KeyError"):
                # (for obj[k] the KeyError is raised by the wrapper after a successful get: nothing to retry)
                want_cmds = bcmds * 2
            probs = []
            if not same_result(res, bres):
                probs.append(("result", f"returned {res!r}, Client gives {bres!r}"))
            if cmds != want_cmds:
                probs.append(("commands", f"sent {cmds!r}, Client sends {want_cmds!r}"))
            if opts != bopts:
                probs.append(("socket-options", f"socket options {opts!r}, Client sets {bopts!r}"))
            if touts != btouts and cmds:
                probs.append(("timeouts", f"timeouts in force {touts!r}, Client's {btouts!r}"))
            for kind, text in probs:
                argnames = ",".join(sorted(call[3]))
                chk.violation(f"{kind}|{stack}.{call[1]}|config={cfgname}|state={state}|args={argnames}",
                              f"{stack}({cfgname}: {cfg}) in state '{state}': {call[0]} {text}",
                              {"config": cfgname, "state": state, "call": call[0], "stack": stack})
    # two-call sequences on one object: whatever the first call's fate (error reply, oversized item,
    # plain hit), the follow-up must be sent and answered exactly as on a plain Client
    if cfgname in ("default", "default_noreply_off", "prefix"):
        for first in FIRST_CALLS:
            for fu in FOLLOW_UPS:
                base = observe("client", cfg, state, fu, first)
                chk.add()
                chk.outcome((cfgname, state, first[0], fu[0]))
                for stack in STACKS:
                    got = observe(stack, cfg, state, fu, first)
                    chk.add()
                    want_cmds = base[1] * 2 if (stack == "retry2" and base[0][0] == "exc") else base[1]
                    if not same_result(got[0], base[0]) or got[1] != want_cmds:
                        chk.violation(f"sequence|{stack}.{fu[1]}|after={first[1]}|config={cfgname}|state={state}",
                                      f"{stack}({cfgname}) in state '{state}': after {first[0]}, {fu[0]} gave {got[0]!r} with commands "
                                      f"{got[1]!r}; Client gives {base[0]!r} with {base[1]!r}",
                                      {"config": cfgname, "state": state, "call": fu[0], "stack": stack, "first": first[0]})
    if cfgname == "prefix" and state == "numeric":
        c = calls(cfgname)[5]
        chk.sample({"config": cfgname, "state": state, "call": c[0], "client_observation": repr(observe("client", cfg, state, c))[:300]})


def run(chk):
    chk.rule = RULE
    chk.assumptions = ["arguments are passed by keyword (positional order differs between the classes and is not part of the statement)",
                       "a RetryingClient with 2 attempts repeats the command list of a raising call (not judged when the argument is a one-shot iterator, which the first attempt has consumed)"]
    chk.info["configurations"] = len(all_configs(chk.tier))
    runner.parallel(chk, _worker, [(c, s) for c in all_configs(chk.tier) for s in STATES])


def replay(detail):
    cfg = all_configs("thorough")[detail["config"]]
    if detail.get("first"):
        call = next(c for c in FOLLOW_UPS if c[0] == detail["call"])
        first = next(c for c in FIRST_CALLS if c[0] == detail["first"])
    else:
        call = next(c for c in calls(detail["config"]) if c[0] == detail["call"])
        first = None
    base = observe("client", cfg, detail["state"], call, first)
    got = observe(detail["stack"], cfg, detail["state"], call, first)
    print("    Client :", base)
    print("    ", detail["stack"], ":", got)
    if detail["stack"] == "retry2" and base[0][0] == "exc" and not (call[1] == "__getitem__" and base[0][1] == "KeyError"):
        base = (base[0], base[1] * 2, base[2], base[3])
    return [] if got == base or (same_result(got[0], base[0]) and got[1:] == base[1:]) else [f"{detail['stack']} differs from Client on {call[0]}"]
