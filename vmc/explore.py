"""E1: deviation-bounded, stateless exploration of environment answers on the real code.

run(chooser) builds fresh objects and performs the scenario; every environment
choice point calls chooser.choose(kind, labels): alternative 0 is the default
answer, alternatives 1..len(labels) are deviations (cost 1 each).  explore()
enumerates every choice sequence whose number of deviations is <= bound.
"""

from __future__ import annotations

from vmc.runner import HarnessError


class Chooser:
    __slots__ = ("prefix", "expect", "kinds", "nalts", "choices", "labels")

    def __init__(self, prefix=(), expect=None):
        self.prefix = prefix
        self.expect = expect  # (index, kind, nalts) the prefix's last point must look like
        self.kinds = []
        self.nalts = []
        self.choices = []
        self.labels = []  # label chosen at each deviating point (for reports)

    def choose(self, kind, labels):
        i = len(self.choices)
        n = len(labels) + 1
        if i < len(self.prefix):
            c = self.prefix[i]
            if c >= n:
                raise HarnessError(
                    f"replay diverged: choice {c} out of range at point {i} ({kind}, {n} alternatives)")
            if self.expect is not None and self.expect[0] == i and (
                self.expect[1] != kind or self.expect[2] != n
            ):
                raise HarnessError(
                    f"replay diverged at point {i}: expected {self.expect[1:]} got {(kind, n)}")
        else:
            c = 0
        self.kinds.append(kind)
        self.nalts.append(n)
        self.choices.append(c)
        if c:
            self.labels.append((i, kind, labels[c - 1]))
        return c

    @property
    def deviations(self):
        return len(self.labels)

    def plan(self):
        """Human-readable fault plan of this execution."""
        return [(i, k, l if isinstance(l, str) else list(l)) for i, k, l in self.labels]


def explore(run, bound, on_exec, cap=None):
    """Enumerate all executions of run() with at most `bound` deviations.

    on_exec(chooser, result) is called for every execution.  Returns the number of
    executions, or raises HarnessError.  cap: stop after that many executions
    (returns -count so the caller can record that a cap was hit)."""
    stack = [((), None)]
    count = 0
    while stack:
        prefix, expect = stack.pop()
        ch = Chooser(prefix, expect)
        res = run(ch)
        if len(ch.choices) < len(prefix):
            raise HarnessError(
                f"replay diverged: execution ended after {len(ch.choices)} points, prefix has {len(prefix)}")
        count += 1
        on_exec(ch, res)
        if cap is not None and count >= cap and stack:
            return -count
        used = sum(1 for c in prefix if c)
        if used < bound:
            choices = ch.choices
            for i in range(len(ch.choices) - 1, len(prefix) - 1, -1):
                n = ch.nalts[i]
                if n > 1:
                    base = tuple(choices[:i])
                    kind = ch.kinds[i]
                    for alt in range(n - 1, 0, -1):
                        stack.append((base + (alt,), (i, kind, n)))
    return count


def replay(run, choices):
    ch = Chooser(tuple(choices))
    res = run(ch)
    return ch, res
