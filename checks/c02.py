"""C02 - requests are well-formed memcached commands; arguments cannot inject.

Bounded-exhaustive enumeration of operations x keys x values x integer arguments x
configurations.  Everything the real client hands to sendall() is parsed by the strict parser
(vmc/strictparse.py, independent of pymemcache) and compared with the command list computed
independently from the arguments; or the call raised MemcacheIllegalInputError and not a single
byte was written.
"""

from __future__ import annotations

import decimal
import fractions

from pymemcache.client.base import Client, PooledClient
from pymemcache.client.hash import HashClient
from pymemcache.exceptions import MemcacheIllegalInputError

from vmc import keyspace, runner
from vmc.strictparse import Cmd, Malformed, parse_all

PROPERTY = "C02"
LEVEL = "exploration"
RULE = (
    "cases = operation x argument tuple x configuration; dimensions: (A) every operation x key corpus "
    "(all keys <=1 byte/char full alphabet [thorough <=2], 2-3 over the class projection, long keys, empty) x "
    "prefix x allow_unicode_keys; (B) store operations x value corpus x encoding; (C) every integer parameter "
    "x boundary integers and a non-integer menu; (D) multi-key calls with one illegal key at every position; "
    "non-trivial = the arguments are illegal, at a boundary, or contain protocol text; distinct = distinct "
    "(dimension, operation, argument class, outcome)"
)

# --------------------------------------------------------------------------- recording socket


class RecSock:
    def __init__(self, mod):
        self.mod = mod

    def setsockopt(self, *a): pass
    def settimeout(self, t): pass

    def connect(self, a):
        if self.mod.fail == "connect":
            raise ConnectionRefusedError(111, "Connection refused")

    def sendall(self, d):
        if self.mod.fail == "send":
            raise BrokenPipeError(32, "Broken pipe")
        self.mod.sent.append(bytes(d))

    def recv(self, n):
        # answer every complete command with a plausible line so that reply-reading calls return
        if self.mod.fail == "recv":
            raise ConnectionResetError(104, "Connection reset by peer")
        self.mod.recvs += 1
        return self.mod.reply

    def close(self): pass


class RecModule:
    AF_UNIX = 1
    SOCK_STREAM = 1

    def __init__(self, reply=b"END\r\n"):
        self.sent = []
        self.recvs = 0
        self.reply = reply
        self.fail = None  # "connect" | "send" | "recv": the environment fails there (sequence dimension)

    def socket(self, *a):
        return RecSock(self)


STACKS = {"Client": (Client, ("/s",)), "PooledClient": (PooledClient, ("/s",)), "HashClient": (HashClient, (["/s"],))}

# --------------------------------------------------------------------------- intent


def enc_key(key, prefix, uni):
    v, wire = keyspace.legal(key, prefix, uni)
    return v, wire


def enc_value(value, encoding):
    """bytes the server must receive as the data block, or None if the value cannot be encoded."""
    if isinstance(value, bytes):
        return value
    try:
        return str(value).encode(encoding)
    except UnicodeEncodeError:
        return None


STORE = ("set", "add", "replace", "append", "prepend")
IN_RANGE = {
    "expire": lambda v: -(2**63) <= v <= 2**63 - 1,
    "flags": lambda v: 0 <= v <= 2**32 - 1,
    "cas": lambda v: 0 <= v <= 2**64 - 1,
    "delta": lambda v: 0 <= v <= 2**64 - 1,
    "delay": lambda v: 0 <= v <= 2**63 - 1,
}


def is_int(v):
    return isinstance(v, int) and not isinstance(v, bool)


class Call:
    """One public call with named arguments, able to state its intended wire commands."""

    def __init__(self, op, keys, value=b"v", expire=0, flags=None, cas=1, delta=1, delay=0, noreply=True):
        self.op = op
        self.keys = keys  # list of keys (one element for single-key operations)
        self.value = value
        self.expire = expire
        self.flags = flags
        self.cas = cas
        self.delta = delta
        self.delay = delay
        self.noreply = noreply

    def _nr(self):
        """noreply as the caller passes it: left out altogether ("OMIT"), or the given value (None included)."""
        return {} if self.noreply == "OMIT" else {"noreply": self.noreply}

    def invoke(self, obj):
        o, k = self.op, self.keys
        if o in STORE:
            return getattr(obj, o)(k[0], self.value, expire=self.expire, **self._nr(), flags=self.flags)
        if o == "cas":
            return obj.cas(k[0], self.value, self.cas, expire=self.expire, **self._nr(), flags=self.flags)
        if o == "set_many":
            return obj.set_many({x: self.value for x in k}, expire=self.expire, **self._nr(), flags=self.flags)
        if o in ("get", "gets"):
            return getattr(obj, o)(k[0])
        if o in ("gat", "gats"):
            return getattr(obj, o)(k[0], expire=self.expire)
        if o in ("get_many", "gets_many"):
            return getattr(obj, o)(list(k))
        if o == "delete":
            return obj.delete(k[0], **self._nr())
        if o == "delete_many":
            return obj.delete_many(list(k), **self._nr())
        if o in ("incr", "decr"):
            return getattr(obj, o)(k[0], self.delta, **self._nr())
        if o == "touch":
            return obj.touch(k[0], expire=self.expire, **self._nr())
        if o == "flush_all":
            return obj.flush_all(delay=self.delay, **self._nr())
        raise KeyError(o)

    def int_params(self):
        o = self.op
        out = []
        if o in STORE or o in ("cas", "set_many", "gat", "gats", "touch"):
            out.append(("expire", self.expire))
        if (o in STORE or o in ("cas", "set_many")) and self.flags is not None:
            out.append(("flags", self.flags))
        if o == "cas":
            out.append(("cas", self.cas))
        if o in ("incr", "decr"):
            out.append(("delta", self.delta))
        if o == "flush_all":
            out.append(("delay", self.delay))
        return out

    def intent(self, prefix, uni, encoding):
        """('cmds', [Cmd...]) | ('reject',) | ('weak', n_frames) | ('unjudged',)"""
        wires = []
        for k in self.keys:
            v, w = keyspace.legal(k, prefix, uni)
            if v == "illegal":
                return ("reject",)
            if v == "outside":
                return ("reject-or-nothing",)
            wires.append(w)
        weak = False
        for name, val in self.int_params():
            if name == "cas" and isinstance(val, (str, bytes)):
                s = val.decode("latin1") if isinstance(val, bytes) else val
                if not (s.isascii() and s.isdigit()):
                    return ("reject",)
                if not IN_RANGE["cas"](int(s)):
                    return ("unjudged",)
                continue
            if not is_int(val):
                if isinstance(val, bool):
                    weak = True  # a bool is an int to Python: rejected, or sent as 0 / 1
                else:
                    return ("reject",)  # "non-integers being rejected before sending"
            elif not IN_RANGE[name](val):
                return ("unjudged",)
        o = self.op
        data = None
        serde_flags = 0
        if o in STORE or o in ("cas", "set_many"):
            if getattr(self, "serde", False) and not isinstance(self.value, bytes):
                data, serde_flags = ("<" + repr(self.value) + ">").encode("utf8"), 18
            else:
                data = enc_value(self.value, encoding)
            if data is None:
                return ("reject",)
        nframes = len(wires) if o in ("set_many", "delete_many") else 1
        if weak:
            return ("weak", nframes)
        if self.noreply in ("OMIT", None):
            # the documented defaults: cas / incr / decr wait for the reply, the others follow default_noreply (True here)
            nr = o not in ("cas", "incr", "decr")
        else:
            nr = bool(self.noreply)
        flags = serde_flags if self.flags is None else self.flags
        cmds = []
        if o in STORE or o == "set_many":
            verb = b"set" if o == "set_many" else o.encode()
            for w in wires:
                cmds.append(Cmd(verb, keys=[w], flags=flags, exptime=self.expire, nbytes=len(data), data=data, noreply=nr))
        elif o == "cas":
            c = int(self.cas) if not isinstance(self.cas, int) else self.cas
            cmds.append(Cmd(b"cas", keys=[wires[0]], flags=flags, exptime=self.expire, nbytes=len(data), data=data,
                            cas=c, noreply=nr))
        elif o in ("get", "gets"):
            cmds.append(Cmd(o.encode(), keys=wires))
        elif o in ("get_many", "gets_many"):
            if wires:
                cmds.append(Cmd(o[:-5].encode(), keys=wires))
        elif o in ("gat", "gats"):
            cmds.append(Cmd(o.encode(), keys=wires, exptime=self.expire))
        elif o == "delete":
            cmds.append(Cmd(b"delete", keys=wires, noreply=nr))
        elif o == "delete_many":
            for w in wires:
                cmds.append(Cmd(b"delete", keys=[w], noreply=nr))
        elif o in ("incr", "decr"):
            cmds.append(Cmd(o.encode(), keys=wires, delta=self.delta, noreply=nr))
        elif o == "touch":
            cmds.append(Cmd(b"touch", keys=wires, exptime=self.expire, noreply=nr))
        elif o == "flush_all":
            cmds.append(Cmd(b"flush_all", delay=self.delay, noreply=nr))
        return ("cmds", cmds)

    def describe(self):
        d = {"op": self.op, "keys": [k if isinstance(k, str) else {"hex": k.hex()} for k in self.keys],
             "value": self.value if isinstance(self.value, (str, int)) else (
                 {"hex": bytes(self.value).hex()} if isinstance(self.value, bytes) else {"repr": repr(self.value)[:60], "hex": None}),
             "noreply": self.noreply, "serde": getattr(self, "serde", False), "ignore_exc": getattr(self, "ignore_exc", False)}
        for n in ("expire", "flags", "cas", "delta", "delay"):
            v = getattr(self, n)
            d[n] = v if (v is None or isinstance(v, (int, str, float))) else {"repr": repr(v), "hex": v.hex() if isinstance(v, bytes) else None}
        return d


REPLIES = {  # replies long enough for the longest multi-key call (2050 keys)
    "get": b"END\r\n", "gets": b"END\r\n", "gat": b"END\r\n", "gats": b"END\r\n", "get_many": b"END\r\n",
    "gets_many": b"END\r\n", "delete": b"DELETED\r\n", "delete_many": b"DELETED\r\n" * 2100, "incr": b"5\r\n",
    "decr": b"5\r\n", "touch": b"TOUCHED\r\n", "flush_all": b"OK\r\n", "cas": b"STORED\r\n",
    "set_many": b"STORED\r\n" * 2100,
}


class FlagSerde:
    """A serializer that uses the flags field (like pickle_serde): bytes -> 0, everything else -> 18."""

    def serialize(self, key, value):
        if isinstance(value, bytes):
            return value, 0
        return ("<" + repr(value) + ">").encode("utf8"), 18

    def deserialize(self, key, value, flags):
        return value


def execute(call, stack, prefix, uni, encoding):
    cls, args = STACKS[stack]
    mod = RecModule(REPLIES.get(call.op, b"STORED\r\n"))
    kw = {"serde": FlagSerde()} if getattr(call, "serde", False) else {}
    if getattr(call, "ignore_exc", False):
        kw["ignore_exc"] = True  # swallows cache failures - not the caller's illegal arguments
    obj = cls(*args, socket_module=mod, key_prefix=prefix, allow_unicode_keys=uni, encoding=encoding, **kw)
    try:
        call.invoke(obj)
        res = "ok"
    except MemcacheIllegalInputError:
        res = "illegal"
    except Exception as e:
        res = "other:" + type(e).__name__
    return res, b"".join(mod.sent)


def judge(chk, dim, call, stack, prefix, uni, encoding, klass):
    intent = call.intent(prefix, uni, encoding)
    chk.add()
    if intent[0] == "unjudged":
        return
    res, sent = execute(call, stack, prefix, uni, encoding)
    items, residue = parse_all(sent)
    bad = None
    if intent[0] == "reject":
        if sent:
            bad = ("sent-despite-illegal-input", f"wrote {sent[:80]!r} although an argument is illegal (call ended: {res})")
        elif res != "illegal":
            # HashClient multi-key calls validate per key; nothing sent and some error is all we require there
            if not (res.startswith("other") and False):
                bad = ("illegal-input-not-rejected", f"ended with {res} instead of MemcacheIllegalInputError (nothing sent)")
    elif intent[0] == "reject-or-nothing":
        # empty prefixed key: outside C20; here only: nothing malformed may reach the wire
        if any(isinstance(i, Malformed) for i in items) or residue:
            bad = ("malformed-request", f"wrote {sent[:80]!r}, which a strict parser reads as {items[:2]}{' + residue' if residue else ''}")
    elif intent[0] == "weak":
        if sent:
            ok = not residue and len(items) == intent[1] and all(isinstance(i, Cmd) for i in items)
            if not ok:
                bad = ("non-integer-argument-reaches-wire",
                       f"wrote {sent[:100]!r}: parsed as {items[:3]}{' + residue' if residue else ''}, "
                       f"expected rejection or exactly {intent[1]} well-formed command(s)")
        elif res == "ok":
            bad = ("nothing-sent", "returned normally without sending anything")
    else:
        want = intent[1]
        if res == "illegal" and not sent:
            bad = ("rejects-legal-input", "raised MemcacheIllegalInputError for legal arguments")
        elif res.startswith("other") and not sent:
            bad = ("fails-on-legal-input", f"raised {res[6:]} for legal arguments")
        elif residue or any(isinstance(i, Malformed) for i in items):
            bad = ("malformed-request", f"wrote {sent[:100]!r}, which a strict parser reads as {items[:3]}{' + residue ' + repr(residue[:30]) if residue else ''}")
        elif items != want:
            bad = ("wrong-command", f"wrote {sent[:100]!r} = {items[:3]}, intended {want[:3]}")
    chk.outcome((dim, call.op, klass, intent[0], res))
    if bad:
        sig = f"{bad[0]}|{stack}.{call.op}|{dim}:{klass}"
        if bad[0] == "malformed-request" and klass.endswith(":empty") and not prefix and call.keys in ([""], [b""]):
            # one specific input (recorded as a known finding): the empty key with an empty prefix
            sig = "malformed-request|empty key with empty prefix"
        chk.violation(sig, f"{stack}(key_prefix={prefix[:8]!r}, allow_unicode_keys={uni}, encoding={encoding!r}).{call.op} "
                      f"with {call.describe()} {bad[1]}",
                      {"call": call.describe(), "stack": stack, "prefix_hex": prefix.hex(), "unicode": uni,
                       "encoding": encoding, "dim": dim, "klass": klass})


# --------------------------------------------------------------------------- dimensions

SINGLE_KEY_OPS = list(STORE) + ["cas", "get", "gets", "gat", "gats", "delete", "incr", "decr", "touch"]
MULTI_KEY_OPS = ["get_many", "gets_many", "delete_many", "set_many"]
import array

VALUES = [b"", b"\r\n", b"END\r\n", b"get x\r\n", b"STORED", b"v\r\nflush_all\r\n", b" noreply", b"x" * 4096,
          "text", "café", 17, b"\x00\xff",
          # bytes-like objects that are not bytes: whatever the client does with them, the length must be in bytes
          bytearray(b"ba\r\nflush_all\r\n"), memoryview(b"mv-bytes"), memoryview(array.array("I", [1, 2, 3])),
          memoryview(array.array("H", [0x0a0d, 0x6c66]))]
INT_GOOD = {
    "expire": [-(2**63), -1, 0, 1, 2**31 - 1, 2**31, 2**63 - 1],
    "flags": [0, 1, 2**16, 2**32 - 1],
    "cas": [0, 1, 2**64 - 1, "0", "18446744073709551615", b"1", b"18446744073709551615"],
    "delta": [0, 1, 2**64 - 1],
    "delay": [0, 1, 2**31],
}
NON_INT = [1.5, "1", b"1", None, "1 noreply", "0\r\nflush_all", "0 0 0\r\nflush_all\r\nset k 0", True, [1],
           0.0, 5.0, 30.0, decimal.Decimal(5), fractions.Fraction(2)]  # not ints, though equal to ints used elsewhere
CAS_BAD = ["", "1 2", "1\r\nflush_all", b"1 noreply", "١", "١٢٣", "²", "１２３", -1, 1.5, None, b"", "+1"]


def dim_keys(chk, tier, stack, prefix, uni, as_str):
    n = 1 if tier == "quick" else 2
    corpus = list(keyspace.short_keys(n if stack == "Client" else 1, as_str))
    corpus += list(keyspace.class_keys(2, as_str))
    if stack == "Client":
        corpus += list(keyspace.class_keys(3, as_str))
    room = 250 - len(prefix)
    corpus += [k for k in keyspace.boundary_keys(len(prefix), prefix)[:6] if isinstance(k, str) == as_str]
    corpus += list(keyspace.long_keys(as_str, keyspace.CLASS_BYTES, [room - 1, room, room + 1], 31))
    ops = SINGLE_KEY_OPS if stack != "HashClient" else ["set", "get", "delete", "incr", "touch", "cas"]
    for key in corpus:
        klass = keyspace.reason(key, prefix, uni)
        for op in (ops if len(key) <= 2 or len(key) > 200 else ("set", "get", "delete")):
            judge(chk, "key", Call(op, [key]), stack, prefix, uni, "ascii", klass)


def dim_values(chk, tier, stack):
    for encoding in ("ascii", "utf8"):
        for v in VALUES:
            klass = type(v).__name__ + (":crlf" if isinstance(v, bytes) and b"\r\n" in v else "") + (":nonascii" if isinstance(v, str) and not v.isascii() else "")
            for op in list(STORE) + ["cas", "set_many"]:
                for nr in (True, False):
                    keys = ["k"] if op != "set_many" else ["k", "m"]
                    judge(chk, "value", Call(op, keys, value=v, noreply=nr), stack, b"ns:", False, encoding, klass)


def dim_noreply_default(chk, tier, stack):
    """noreply left out, or given as None: the command carries the marker the documented default implies."""
    for op in SINGLE_KEY_OPS + MULTI_KEY_OPS + ["flush_all"]:
        if op in ("get", "gets", "gat", "gats", "get_many", "gets_many"):
            continue
        keys = [] if op == "flush_all" else (["k", "k2"] if op in MULTI_KEY_OPS else ["k"])
        for nr in ("OMIT", None):
            for prefix in (b"", b"ns:"):
                judge(chk, "noreply-default", Call(op, keys, noreply=nr), stack, prefix, False, "ascii", f"{op}:{nr}")


def dim_serde(chk, tier, stack):
    """a serializer that returns non-zero flags x explicit flags (None, 0, non-zero)"""
    for v in (b"raw", "text", 17, ("t", 1)):
        for fl in (None, 0, 1, 18, 2**32 - 1):
            for op in list(STORE) + ["cas", "set_many"]:
                keys = ["k"] if op != "set_many" else ["k", "m"]
                for nr in (True, False):
                    c = Call(op, keys, value=v, flags=fl, noreply=nr)
                    c.serde = True
                    judge(chk, "serde", c, stack, b"", False, "ascii", f"{type(v).__name__}:flags={fl}")


def dim_ints(chk, tier, stack):
    targets = {
        "expire": list(STORE) + ["cas", "set_many", "gat", "gats", "touch"],
        "flags": list(STORE) + ["cas", "set_many"],
        "cas": ["cas"], "delta": ["incr", "decr"], "delay": ["flush_all"],
    }
    for name, oplist in targets.items():
        for op in oplist:
            keys = ["k"] if op != "set_many" else ["k", "m"]
            if op == "flush_all" and stack == "HashClient":
                continue
            menu = [("good", v) for v in INT_GOOD[name]] + [("nonint", v) for v in NON_INT]
            if name == "cas":
                menu = [("good", v) for v in INT_GOOD[name]] + [("badcas", v) for v in CAS_BAD]
            for kind, v in menu:
                for nr in (True, False):
                    for val in (b"v", b"flush_all"):
                        for enc in ("ascii", "utf8"):
                            c = Call(op, keys, value=val, noreply=nr, **{name: v})
                            judge(chk, "int", c, stack, b"", False, enc, f"{name}:{kind}:{type(v).__name__}:{enc}")


STATS_HOSTILE = ["items\r\nflush_all", b"items\r\nflush_all", "slabs\nflush_all", b"x\r\nset k 0 0 1\r\nv", "a\rb",
                 "a\x00b", "detail on", b"cachedump 1 10", " ", "\r\n", "k" * 251, "caf\u00e9"]


def _hx(arg):
    return ["s", arg] if isinstance(arg, str) else ["b", arg.hex()]


def _unhx(v):
    return v[1] if v[0] == "s" else bytes.fromhex(v[1])


def stats_hostile_case(cls, cargs, stack, arg):
    """-> [] or [text]: stats(arg) either raises having written nothing, or writes exactly one stats line"""
    mod = RecModule(b"STAT pid 1\r\nEND\r\n")
    obj = cls(*cargs, socket_module=mod, default_noreply=False)
    try:
        obj.stats(arg)
        res = "ok"
    except Exception as e:
        res = "exc:" + type(e).__name__
    sent = b"".join(mod.sent)
    if not sent:
        return []
    items, residue = parse_all(sent)
    one_line = sent.endswith(b"\r\n") and not any(c in sent[:-2] for c in b"\r\n\x00")
    if residue or len(items) != 1 or getattr(items[0], "verb", None) != b"stats" or not one_line:
        return [f"{stack}.stats({arg!r}) wrote {sent!r}, which a server reads as {items}{' + ' + repr(residue) if residue else ''} "
                f"- not one stats command (call ended: {res})"]
    return []


def dim_admin(chk, tier, stack):
    """commands that take no key: a configured key prefix must not leak into their arguments"""
    cls, cargs = STACKS[stack]
    cases = [("stats", ()), ("stats", ("slabs",)), ("stats", ("cachedump", "1", "10")), ("cache_memlimit", (64,)),
             ("version", ()), ("flush_all", ())]
    for prefix in (b"", b"ns:", b"a b"):
        for name, args in cases:
            if not hasattr(cls, name):
                continue
            replies = {"stats": b"STAT pid 1\r\nEND\r\n", "cache_memlimit": b"OK\r\n", "version": b"VERSION 1\r\n", "flush_all": b"OK\r\n"}
            mod = RecModule(replies[name])
            obj = cls(*cargs, socket_module=mod, key_prefix=prefix, default_noreply=False)
            try:
                getattr(obj, name)(*args)
                res = "ok"
            except Exception as e:
                res = "exc:" + type(e).__name__
            sent = b"".join(mod.sent)
            items, residue = parse_all(sent)
            if name == "stats":
                want = [Cmd(b"stats", args=[a.encode() for a in args])]
            elif name == "cache_memlimit":
                want = [Cmd(b"cache_memlimit", delta=64)]
            elif name == "version":
                want = [Cmd(b"version")]
            else:
                want = [Cmd(b"flush_all", delay=0)]
            chk.add()
            chk.outcome(("admin", stack, name, args, prefix))
            if residue or items != want:
                chk.violation(f"wrong-command|{stack}.{name}|admin:prefix={'yes' if prefix else 'no'}",
                              f"{stack}(key_prefix={prefix!r}).{name}{args!r} wrote {sent!r} = {items}, intended {want} (call ended: {res})",
                              {"call": None, "admin": [name, list(args)], "stack": stack, "prefix_hex": prefix.hex(),
                               "unicode": False, "encoding": "ascii", "dim": "admin", "klass": name})
    # hostile arguments of `stats`: refused before anything is written, or written as ONE stats command line
    if hasattr(cls, "stats"):
        for arg in STATS_HOSTILE:
            chk.add()
            chk.outcome(("admin-hostile", stack, repr(arg)))
            bad = stats_hostile_case(cls, cargs, stack, arg)
            if bad:
                chk.violation(f"injection|{stack}.stats|admin:hostile-argument", bad[0],
                              {"call": None, "admin_hostile": _hx(arg), "stack": stack, "prefix_hex": "",
                               "unicode": False, "encoding": "ascii", "dim": "admin", "klass": "stats"})


def dim_multi(chk, tier, stack):
    good = ["k1", b"k2", "k3", "k4"]
    bad_keys = ["a b", b"\r\n", "x\x00", b"k" * 251, "café", b" ", "\t", b"a\nb"]
    for op in MULTI_KEY_OPS:
        for n in range(1, 5):
            for pos in range(n):
                for bk in bad_keys:
                    keys = list(good[:n])
                    keys[pos] = bk
                    for nr in (True, False):
                        judge(chk, "multi", Call(op, keys, noreply=nr), stack, b"", False, "ascii",
                              f"illegal-at-{pos}-of-{n}")
        for n in range(0, 5):
            judge(chk, "multi", Call(op, good[:n], noreply=False), stack, b"p:", False, "ascii", f"all-legal-{n}")
        # long key lists: an illegal key far into the list must still prevent everything from being sent
        for n in (16, 100, 513, 1030, 2050):
            many = [f"key{i}" for i in range(n)]
            for pos in sorted({0, n // 2, n - 2, n - 1}):
                keys = list(many)
                keys[pos] = "bad key"
                judge(chk, "multi", Call(op, keys, noreply=True), stack, b"", False, "ascii", f"illegal-at-{pos}-of-{n}")
                if n <= 64:
                    c = Call(op, keys, noreply=True)
                    c.ignore_exc = True
                    judge(chk, "multi", c, stack, b"", False, "ascii", f"illegal-at-{pos}-of-{n}:ignore_exc")
            judge(chk, "multi", Call(op, many, noreply=True), stack, b"", False, "ascii", f"all-legal-{n}")


# a refused or failed call leaves nothing behind: the next call on the same object writes exactly what it
# writes on a fresh object (first call, environment fault during it)
SEQ_FIRST = [
    ("set_many(late illegal key)", lambda o: o.set_many({"a": b"v", "bad key": b"v"}, noreply=False), None),
    ("set_many(late unencodable value)", lambda o: o.set_many({"a": b"v", "b": "\xe9"}, noreply=False), None),
    ("set(flags not an int)", lambda o: o.set("k", b"v", flags="1 1"), None),
    ("cas(cas not a number)", lambda o: o.cas("k", b"v", "1 2"), None),
    ("delete_many(late illegal key)", lambda o: o.delete_many(["a", "bad key"], noreply=False), None),
    ("get_many(late illegal key)", lambda o: o.get_many(["a", "bad key"]), None),
    ("incr(non-integer delta)", lambda o: o.incr("k", "x"), None),
    ("set [connect refused]", lambda o: o.set("k", b"v", noreply=False), "connect"),
    ("set_many [connect refused]", lambda o: o.set_many({"a": b"1", "b": b"2"}), "connect"),
    ("set [send fails]", lambda o: o.set("k", b"v", noreply=False), "send"),
    ("delete [send fails]", lambda o: o.delete("k", noreply=False), "send"),
    ("get [send fails]", lambda o: o.get("k"), "send"),
    ("set [reply lost]", lambda o: o.set("k", b"v", noreply=False), "recv"),
    ("get_many [reply lost]", lambda o: o.get_many(["a", "b"]), "recv"),
    # calls that succeed: nothing they learned about a key or an argument may leak into the next call
    ("stats('m') ok", lambda o: o.stats("m"), None),
    ("stats(b'm') ok", lambda o: o.stats(b"m"), None),
    ("get('m') ok", lambda o: o.get("m"), None),
    ("get(b'm') ok", lambda o: o.get(b"m"), None),
    ("set_many({m,n}) ok", lambda o: o.set_many({"m": b"1", "n": b"2"}, noreply=True), None),
    ("delete('m') ok", lambda o: o.delete("m", noreply=True), None),
    ("cache_memlimit(64) ok", lambda o: o.cache_memlimit(64), None),
]


class FnCall:
    """A second call given as a function (for operations the Call class does not describe)."""

    def __init__(self, op, fn):
        self.op, self.fn = op, fn

    def invoke(self, obj):
        return self.fn(obj)


SEQ_SECOND = [Call("set", ["m"], value=b"w", noreply=False), Call("set_many", ["m", "n"], value=b"w", noreply=False),
              Call("add", ["m"], value=b"w", noreply=True), Call("cas", ["m"], value=b"w", cas=7, noreply=False),
              Call("get", ["m"]), Call("gets_many", ["m", "n"]), Call("delete", ["m"], noreply=False),
              Call("delete_many", ["m", "n"], noreply=False), Call("incr", ["m"], noreply=False),
              Call("touch", ["m"], expire=5, noreply=False), Call("gat", ["m"], expire=5), Call("flush_all", [], noreply=False),
              FnCall("stats", lambda o: o.stats("m")), FnCall("stats-bytes", lambda o: o.stats(b"m")),
              Call("get", [b"m"]), Call("delete", [b"m"], noreply=False)]


def run_sequence(stack, first, second, prefix=b""):
    """-> (bytes written by `second` after `first` on the same object, its ending)"""
    cls, args = STACKS[stack]
    mod = RecModule(b"STORED\r\n")
    obj = cls(*args, socket_module=mod, key_prefix=prefix)
    if first is not None:
        mod.fail = first[2]
        try:
            first[1](obj)
        except Exception:  # noqa - the first call is meant to fail
            pass
        mod.fail = None
    mark = len(mod.sent)
    mod.reply = REPLIES.get(second.op, b"END\r\n" if second.op.startswith("stats") else b"STORED\r\n")
    try:
        second.invoke(obj)
        res = "ok"
    except Exception as e:  # noqa
        res = "raises:" + type(e).__name__
    return b"".join(mod.sent[mark:]), res


def dim_sequence(chk, tier, stack, only=None):
    for prefix in (b"", b"ns:"):
        for second in SEQ_SECOND:
            alone = run_sequence(stack, None, second, prefix)
            for first in SEQ_FIRST:
                if only is not None and (first[0], second.op) != only:
                    continue
                if stack == "HashClient" and first[2] is not None:
                    continue  # after a network failure HashClient deliberately defers the retry (failover: C13)
                got = run_sequence(stack, first, second, prefix)
                chk.add()
                chk.outcome(("sequence", stack, first[0], second.op, got[1]))
                if got != alone:
                    what = "wrote" if got[0] != alone[0] else "ended"
                    chk.violation(f"sequence|{stack}.{second.op}|after={first[0]}",
                                  f"{stack}(key_prefix={prefix!r}): after {first[0] if first[0].endswith(' ok') else 'a failed ' + first[0]}, {second.op} {what} "
                                  f"{got[0][:120]!r} ({got[1]}); on a fresh object it writes {alone[0][:120]!r} ({alone[1]})",
                                  {"dim": "sequence", "stack": stack, "first": first[0], "second": second.op})


def _worker(job, chk):
    dim, stack, tier, extra = job
    if dim == "sequence":
        dim_sequence(chk, tier, stack)
        return
    if dim == "key":
        prefix, uni, as_str = extra
        dim_keys(chk, tier, stack, prefix, uni, as_str)
    elif dim == "value":
        dim_values(chk, tier, stack)
        dim_noreply_default(chk, tier, stack)
    elif dim == "int":
        dim_ints(chk, tier, stack)
    elif dim == "multi":
        dim_multi(chk, tier, stack)
    elif dim == "serde":
        dim_serde(chk, tier, stack)
    elif dim == "admin":
        dim_admin(chk, tier, stack)
    if dim == "int" and stack == "Client":
        chk.sample(Call("set", ["k"], value=b"flush_all", flags="0 0 0\r\nflush_all\r\nset k 0").describe())
        chk.sample(Call("cas", ["k"], cas=b"18446744073709551615", noreply=False).describe())
    if dim == "multi" and stack == "Client":
        chk.sample(Call("delete_many", ["k1", b"\r\n", "k3"], noreply=False).describe())


def _jobs(tier):
    jobs = []
    for stack in STACKS:
        for prefix in (b"", b"ns:", b"a b"):
            for uni in (False, True):
                for as_str in (False, True):
                    jobs.append(("key", stack, tier, (prefix, uni, as_str)))
        jobs.append(("value", stack, tier, None))
        jobs.append(("int", stack, tier, None))
        jobs.append(("serde", stack, tier, None))
        jobs.append(("admin", stack, tier, None))
        jobs.append(("sequence", stack, tier, None))
        if stack != "HashClient":
            jobs.append(("multi", stack, tier, None))
    return jobs


def run(chk):
    chk.rule = RULE
    chk.assumptions = ["the strict parser (vmc/strictparse.py) accepts exactly well-formed memcached text commands",
                       "integers outside the protocol's ranges are not judged; non-integers (and bool) must be rejected before "
                       "sending or yield exactly one well-formed frame per intended command",
                       "HashClient multi-key calls validate key by key (the 'nothing at all is sent' clause is stated for Client and PooledClient)"]
    runner.parallel(chk, _worker, _jobs(chk.tier))


def _undesc(d):
    def k(x):
        return bytes.fromhex(x["hex"]) if isinstance(x, dict) else x

    def val(x):
        if isinstance(x, dict):
            return bytes.fromhex(x["hex"]) if x.get("hex") is not None else eval(x["repr"])
        return x

    c = Call(d["op"], [k(x) for x in d["keys"]], value=val(d["value"]), expire=val(d["expire"]), flags=val(d["flags"]),
             cas=val(d["cas"]), delta=val(d["delta"]), delay=val(d["delay"]), noreply=d["noreply"])
    c.serde = d.get("serde", False)
    c.ignore_exc = d.get("ignore_exc", False)
    return c


def replay(detail):
    if detail.get("dim") == "sequence":
        tmp = runner.Check(PROPERTY, LEVEL, "quick", 0)
        dim_sequence(tmp, "quick", detail["stack"], only=(detail["first"], detail["second"]))
        return [v["what"] for v in tmp.violations.values()]
    if detail.get("dim") == "admin":
        tmp = runner.Check(PROPERTY, LEVEL, "quick", 0)
        dim_admin(tmp, "quick", detail["stack"])
        return [v["what"] for v in tmp.violations.values()]
    call = _undesc(detail["call"])
    prefix = bytes.fromhex(detail["prefix_hex"])
    tmp = runner.Check(PROPERTY, LEVEL, "quick", 0)
    judge(tmp, detail["dim"], call, detail["stack"], prefix, detail["unicode"], detail["encoding"], detail["klass"])
    res, sent = execute(call, detail["stack"], prefix, detail["unicode"], detail["encoding"])
    print("    call ended:", res, " sent:", sent[:200])
    print("    parsed    :", parse_all(sent))
    print("    intent    :", call.intent(prefix, detail["unicode"], detail["encoding"]))
    return [v["what"] for v in tmp.violations.values()]
