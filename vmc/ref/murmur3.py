"""Two independent references for MurmurHash3_x86_32 (property C14).

* c_ref / c_batch: vmc/ref/murmur3_ref.c, native uint32_t arithmetic, loaded with ctypes from
  build/libmurmur3ref.so (built by bin/setup; rebuilt here when missing or older than its source).
* py_ref: pure Python over `bytes`, blocks read with struct '<I', the tail read by zero-padding
  to one more '<I' word (no switch), every intermediate reduced mod 2**32 immediately.

Neither looks at pymemcache.  VECTORS are published values (SMHasher-derived test vectors that
circulate with the algorithm, and SMHasher's own verification constant for this function).
"""

from __future__ import annotations

import ctypes
import os
import struct
import subprocess

_HERE = os.path.dirname(os.path.abspath(__file__))
_VERIF = os.path.dirname(os.path.dirname(_HERE))
SRC = os.path.join(_HERE, "murmur3_ref.c")
LIB = os.path.join(_VERIF, "build", "libmurmur3ref.so")

_lib = None


def _load():
    global _lib
    if _lib is not None:
        return _lib
    if not os.path.exists(LIB) or os.path.getmtime(LIB) < os.path.getmtime(SRC):
        os.makedirs(os.path.dirname(LIB), exist_ok=True)
        tmp = f"{LIB}.{os.getpid()}.tmp"
        subprocess.check_call(["gcc", "-O2", "-shared", "-fPIC", "-o", tmp, SRC])
        os.replace(tmp, LIB)
    lib = ctypes.CDLL(LIB)
    lib.murmur3_x86_32_ref.argtypes = [ctypes.c_char_p, ctypes.c_int, ctypes.c_uint32]
    lib.murmur3_x86_32_ref.restype = ctypes.c_uint32
    lib.murmur3_x86_32_ref_batch.argtypes = [ctypes.c_char_p, ctypes.c_int, ctypes.c_long,
                                             ctypes.POINTER(ctypes.c_uint32), ctypes.c_int,
                                             ctypes.POINTER(ctypes.c_uint32)]
    lib.murmur3_x86_32_ref_batch.restype = None
    _lib = lib
    return lib


def c_ref(data: bytes, seed: int) -> int:
    return _load().murmur3_x86_32_ref(data, len(data), seed)


def c_batch(packed: bytes, length: int, n: int, seeds) -> list:
    """n inputs of `length` bytes packed back to back; returns values[i * len(seeds) + s]."""
    assert len(packed) == length * n
    ns = len(seeds)
    sarr = (ctypes.c_uint32 * ns)(*seeds)
    out = (ctypes.c_uint32 * (n * ns))()
    _load().murmur3_x86_32_ref_batch(packed if packed else b"\0", length, n, sarr, ns, out)
    return list(out)


M32 = 0xFFFFFFFF
_C1 = 0xCC9E2D51
_C2 = 0x1B873593


def _rotl(x, r):
    return ((x << r) & M32) | (x >> (32 - r))


def _mix_k(k):
    k = (k * _C1) & M32
    k = _rotl(k, 15)
    return (k * _C2) & M32


def py_ref(data: bytes, seed: int) -> int:
    n = len(data)
    h = seed & M32
    whole = n - (n % 4)
    for (k,) in struct.iter_unpack("<I", data[:whole]):
        h ^= _mix_k(k)
        h = _rotl(h, 13)
        h = (h * 5 + 0xE6546B64) & M32
    rest = data[whole:]
    if rest:
        (k,) = struct.unpack("<I", rest + b"\0" * (4 - len(rest)))
        h ^= _mix_k(k)
    h ^= n & M32
    h ^= h >> 16
    h = (h * 0x85EBCA6B) & M32
    h ^= h >> 13
    h = (h * 0xC2B2AE35) & M32
    h ^= h >> 16
    return h


# (input bytes, seed, MurmurHash3_x86_32)
VECTORS = [
    (b"", 0x00000000, 0x00000000),
    (b"", 0x00000001, 0x514E28B7),
    (b"", 0xFFFFFFFF, 0x81F16F39),
    (b"\xff\xff\xff\xff", 0, 0x76293B50),
    (b"\x21\x43\x65\x87", 0, 0xF55B516B),
    (b"\x21\x43\x65\x87", 0x5082EDEE, 0x2362F9DE),
    (b"\x21\x43\x65", 0, 0x7E4A8634),
    (b"\x21\x43", 0, 0xA0F7B07A),
    (b"\x21", 0, 0x72661CF4),
    (b"\x00\x00\x00\x00", 0, 0x2362F9DE),
    (b"\x00\x00\x00", 0, 0x85F0B427),
    (b"\x00\x00", 0, 0x30F4C306),
    (b"\x00", 0, 0x514E28B7),
    # text vectors that circulate with the thirteen above
    (b"aaaa", 0x9747B28C, 0x5A97808A),
    (b"aaa", 0x9747B28C, 0x283E0130),
    (b"aa", 0x9747B28C, 0x5D211726),
    (b"a", 0x9747B28C, 0x7FA09EA6),
    (b"abcd", 0x9747B28C, 0xF0478627),
    (b"abc", 0x9747B28C, 0xC84A62DD),
    (b"ab", 0x9747B28C, 0x74875592),
    (b"Hello, world!", 0x9747B28C, 0x24884CBA),
    (b"a" * 256, 0x9747B28C, 0x37405BDC),
    (b"abc", 0, 0xB3DD93FA),
    (b"abcdbcdecdefdefgefghfghighijhijkijkljklmklmnlmnomnopnopq", 0, 0xEE925B90),
    (b"The quick brown fox jumps over the lazy dog", 0x9747B28C, 0x2FA826CD),
]

SMHASHER_VERIFICATION = 0xB0F57EE3  # SMHasher main.cpp: { "Murmur3A", ..., 32, 0xB0F57EE3, MurmurHash3_x86_32 }


def smhasher_verification(fn) -> int:
    """SMHasher's VerificationTest: hash keys {0}, {0,1}, ... {0..254} with seed 256-i, then hash
    the concatenated little-endian results with seed 0.  fn(bytes, seed) -> int."""
    key = bytes(range(256))
    buf = b"".join(struct.pack("<I", fn(key[:i], 256 - i)) for i in range(256))
    return fn(buf, 0)
