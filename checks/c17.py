"""C17 - RetryingClient retries exactly as configured.

Exhaustive decision table (no sampling).  A case is

    attempts (1..3, thorough 1..5)
  x retry_for subset of {Base, SubA(Base), SubB(Base), Other} x do_not_retry_for subset (the 81
    disjoint pairs are valid configurations; the 175 overlapping pairs must be rejected)
  x spelling of each collection (None - only for the empty one -, tuple, list, set)
  x retry_delay in {0, 0.5}
  x every outcome sequence of the wrapped call over {returns an object, returns None, raises Base,
    SubA, SubB, Other}, cut at the first success or where the reference policy stops

run on a real RetryingClient around a scripted inner client; `sleep` in the retrying module (and
time.sleep) is a recorder.  Observed: one ordered log of inner calls (method name, argument
objects) and sleeps, and how the call ended.

Oracle: a reference policy written from the property statement over an explicit ancestor table
(no isinstance): the log must be call (sleep(retry_delay) call)* with exactly the reference's
number of calls, no sleep after the last call (a sleep of 0 seconds counts as no sleep), every call with the caller's own argument objects,
the result `is` the object returned by the first successful attempt, the raised exception `is` the
instance raised by the final attempt.  Invalid configurations (attempts 0 / -1, a class in both
collections, members that are not exception classes) must raise at construction - any exception type
is accepted as "rejected", the statement names none.

A second, smaller grid drives other entry points (get/set/delete/touch by attribute, and the
item protocol rc[k], rc[k] = v, del rc[k]) through the same policy.
"""

from __future__ import annotations

import functools
import itertools
import time

import pymemcache.client.retrying as R
from pymemcache.client.retrying import RetryingClient

from vmc import runner

PROPERTY = "C17"
LEVEL = "exploration"
RULE = (
    "cases = attempts (1..3, thorough 1..5) x (retry_for, do_not_retry_for) over all 256 pairs of subsets of "
    "{Base, SubA(Base), SubB(Base), Other} (81 disjoint = valid, 175 overlapping = must be rejected) x spellings "
    "{None (empty only), tuple, list, set}^2 x retry_delay {0, 0.5} x every outcome sequence over {object, None, "
    "raise Base, SubA, SubB, Other} cut at the first success or at the reference's stopping point; plus "
    "attempts in {0,-1}, non-exception members, and an entry-point grid (get/set/delete/touch, item protocol); "
    "non-trivial = the sequence contains at least one raised exception (a decision was taken) or the "
    "configuration is invalid; distinct = distinct (attempts, retry_for set, do_not_retry_for set, outcome "
    "sequence) - spellings and delays are not counted as distinct"
)


class Base(Exception):
    pass


class SubA(Base):
    pass


class SubB(Base):
    pass


class Other(Exception):
    pass


class Plain:  # a class that is not an exception
    pass


CLASSES = [Base, SubA, SubB, Other]
NAMES = {c.__name__: c for c in CLASSES}
ROLES = ("Base", "SubA", "SubB", "Other")
# explicit ancestor table: the reference never asks Python about the hierarchy
ANCESTORS = {Base: (Base,), SubA: (SubA, Base), SubB: (SubB, Base), Other: (Other,)}
SYMBOLS = ["obj", "none", "Base", "SubA", "SubB", "Other"]
SUCCESS = ("obj", "none")
SPELLINGS = ("none", "tuple", "list", "set")
DELAYS = (0, 0.5)
NONEXC_CLASSES = {"int": int, "str": str, "object": object, "Plain": Plain}
# (classes deriving from BaseException only - KeyboardInterrupt, a gevent-style Timeout - ARE exception classes;
#  whether a retry list may hold them is not fixed by the statement, so neither verdict is demanded)
NONCLASS_MEMBERS = {"instance": Base("an instance"), "string": "Base", "None": None, "zero": 0}


def _universes():
    """The same four roles (a base class, two subclasses, an unrelated class) filled with the harness's own
    classes, with the library's exception classes, and with built-in ones: the policy must not depend on
    which classes they are."""
    import pymemcache.exceptions as X
    return {
        "toy": (Base, SubA, SubB, Other),
        "lib": (X.MemcacheError, X.MemcacheIllegalInputError, X.MemcacheUnexpectedCloseError, ConnectionResetError),
        "builtin": (LookupError, KeyError, IndexError, ValueError),
        "oserror": (OSError, ConnectionRefusedError, TimeoutError, X.MemcacheServerError),
    }


UNIVERSE = "toy"


def use_universe(name):
    global CLASSES, NAMES, ANCESTORS, UNIVERSE
    b, a1, a2, o = _universes()[name]
    CLASSES = [b, a1, a2, o]
    NAMES = dict(zip(ROLES, CLASSES))
    ANCESTORS = {b: (b,), a1: (a1, b), a2: (a2, b), o: (o,)}
    UNIVERSE = name


class ScriptExhausted(BaseException):
    """The implementation made more inner calls than the reference allows."""


class Inner:
    """Scripted wrapped client: every public method consumes the next scripted outcome."""

    def __init__(self, seq, log):
        self._seq = seq
        self._log = log
        self._n = 0
        self.raised = []
        self.returned = []

    def _next(self, name, args, kwargs):
        self._log.append(("call", name, args, kwargs))
        i = self._n
        self._n += 1
        if i >= len(self._seq):
            raise ScriptExhausted()
        sym = self._seq[i]
        if sym == "obj":
            v = object()
            self.returned.append((i, v))
            return v
        if sym == "none":
            self.returned.append((i, None))
            return None
        e = NAMES[sym](f"attempt {i}")
        self.raised.append((i, e))
        raise e

    def op(self, *a, **kw):
        return self._next("op", a, kw)

    def get(self, *a, **kw):
        return self._next("get", a, kw)

    def set(self, *a, **kw):
        return self._next("set", a, kw)

    def delete(self, *a, **kw):
        return self._next("delete", a, kw)

    def touch(self, *a, **kw):
        return self._next("touch", a, kw)


    def _call(self, name, *a, **kw):
        return self._next(name, a, kw)


# every public operation of the real Client is a method of the scripted client too: the retry policy must
# not depend on which operation is wrapped
from pymemcache.client.base import Client as _RealClient  # noqa: E402

CLIENT_METHODS = sorted(n for n in dir(_RealClient) if not n.startswith("_") and callable(getattr(_RealClient, n))
                        and n not in ("op", "get", "set", "delete", "touch"))


def _mk(name):
    def f(self, *a, **kw):
        return self._next(name, a, kw)

    f.__name__ = name
    return f


for _n in CLIENT_METHODS:
    setattr(Inner, _n, _mk(_n))


class _CallableObject:
    def __init__(self, inner, name):
        self.inner, self.name = inner, name

    def __call__(self, *a, **kw):
        return self.inner._next(self.name, a, kw)


# how the wrapped client exposes the operation: an ordinary method, or some other callable attribute
INNER_KINDS = ("instance-function", "partial", "staticmethod", "callable-object", "instance-only")


def make_inner(kind, seq, log, name="op"):
    if not kind:
        return Inner(seq, log)
    if kind == "staticmethod":
        box = []
        cls = type("InnerWithStatic", (Inner,), {name: staticmethod(lambda *a, **kw: box[0]._next(name, a, kw))})
        inner = cls(seq, log)
        box.append(inner)
        return inner
    if kind == "instance-only":
        # a proxy-style client: the operation exists on the object (bound in its constructor), not on its class
        bare = type("InnerWithoutOp", (object,), {k: v for k, v in vars(Inner).items()
                                                  if k != name and k not in ("__dict__", "__weakref__")})
        inner = bare(seq, log)
        setattr(inner, name, lambda *a, **kw: inner._next(name, a, kw))
        return inner
    inner = Inner(seq, log)
    if kind == "instance-function":
        setattr(inner, name, lambda *a, **kw: inner._next(name, a, kw))
    elif kind == "partial":
        setattr(inner, name, functools.partial(inner._call, name))
    elif kind == "callable-object":
        setattr(inner, name, _CallableObject(inner, name))
    else:
        raise ValueError(kind)
    return inner


# ---------------------------------------------------------------------------
# reference policy


def members(mask):
    return [c for i, c in enumerate(CLASSES) if mask >> i & 1]


def matches(cls, coll):
    return any(a in coll for a in ANCESTORS[cls])


def relation(cls, coll):
    if not coll:
        return "not-given"
    if cls in coll:
        return "exact"
    return "subclass" if matches(cls, coll) else "no-match"


def gives_up(i, attempts, cls, rf, dnr):
    """After attempt i (0-based) raised an exception of class cls: is it propagated?"""
    if i == attempts - 1:
        return True
    if rf and not matches(cls, rf):
        return True
    if dnr and matches(cls, dnr):
        return True
    return False


def reference(attempts, rf, dnr, delay, seq):
    """-> (events, ending): events = 'call' | ('sleep', delay); ending = ('ret', i) | ('exc', i)."""
    events = []
    for i in range(attempts):
        events.append("call")
        sym = seq[i]
        if sym in SUCCESS:
            return events, ("ret", i)
        if gives_up(i, attempts, NAMES[sym], rf, dnr):
            return events, ("exc", i)
        events.append(("sleep", delay))
    raise AssertionError("unreachable: the last attempt always ends the call")


def sequences(attempts, rf, dnr):
    """Every outcome sequence that the reference consumes completely."""
    out = []

    def rec(prefix):
        i = len(prefix)
        for sym in SYMBOLS:
            if sym in SUCCESS or gives_up(i, attempts, NAMES[sym], rf, dnr):
                out.append(prefix + (sym,))
            else:
                rec(prefix + (sym,))

    rec(())
    return out


# ---------------------------------------------------------------------------
# driving the implementation


def spell(mask_or_members, how):
    ms = members(mask_or_members) if isinstance(mask_or_members, int) else list(mask_or_members)
    if how == "none":
        assert not ms
        return None
    return {"tuple": tuple, "list": list, "set": set}[how](ms)


def spellings_for(mask):
    return SPELLINGS if mask == 0 else SPELLINGS[1:]


K, V, FLAG = "key", object(), object()
SHAPES = {
    # name -> (how to invoke on the RetryingClient, inner method expected, args compared by identity?)
    "op": (lambda rc: rc.op(K, V, flag=FLAG), "op", ((K, V), {"flag": FLAG})),
    "op-noargs": (lambda rc: rc.op(), "op", ((), {})),
    "get": (lambda rc: rc.get(K), "get", ((K,), {})),
    "set": (lambda rc: rc.set(K, V, noreply=False), "set", ((K, V), {"noreply": False})),
    "delete": (lambda rc: rc.delete(K, noreply=FLAG), "delete", ((K,), {"noreply": FLAG})),
    "touch": (lambda rc: rc.touch(K, 5), "touch", ((K, 5), {})),
    "getitem": (lambda rc: rc[K], "get", None),
    "setitem": (lambda rc: rc.__setitem__(K, V), "set", None),
    "delitem": (lambda rc: rc.__delitem__(K), "delete", None),
}
for _n in CLIENT_METHODS:
    SHAPES["m:" + _n] = ((lambda n: lambda rc: getattr(rc, n)(K, V, flag=FLAG))(_n), _n, ((K, V), {"flag": FLAG}))
for _k in INNER_KINDS:
    SHAPES["op@" + _k] = SHAPES["op"]


def construct(inner, attempts, delay, rf_obj, dnr_obj):
    return RetryingClient(inner, attempts=attempts, retry_delay=delay, retry_for=rf_obj,
                          do_not_retry_for=dnr_obj)


def run_case(attempts, delay, rf_obj, dnr_obj, seq, shape="op"):
    """-> (log, ending, inner) ; ending = ('ret', v) | ('exc', e) | ('overrun',) | ('ctor', e)"""
    log = []
    inner = make_inner(shape.partition("@")[2], seq, log)
    try:
        rc = construct(inner, attempts, delay, rf_obj, dnr_obj)
    except Exception as e:  # noqa
        return log, ("ctor", e), inner

    def rec(d=None, *a):
        log.append(("sleep", d))

    real = time.sleep
    R.sleep = rec
    time.sleep = rec
    try:
        try:
            ending = ("ret", SHAPES[shape][0](rc))
        except ScriptExhausted:
            ending = ("overrun",)
        except Exception as e:  # noqa
            ending = ("exc", e)
    finally:
        time.sleep = real
    return log, ending, inner


def show_log(log):
    return " ".join("call" if e[0] == "call" else f"sleep({e[1]!r})" for e in log) or "(nothing)"


def judge(attempts, delay, rf, dnr, seq, shape, log, ending, inner):
    """Compare with the reference. -> None | (kind, index of the decision concerned, text)"""
    exp_events, exp_end = reference(attempts, rf, dnr, delay, seq)
    if ending[0] == "ctor":
        return "rejected-valid-configuration", None, f"constructor raised {ending[1]!r}"
    ncall_exp = sum(1 for e in exp_events if e == "call")
    ncall_got = sum(1 for e in log if e[0] == "call")
    got_shape = ["call" if e[0] == "call" else ("sleep", e[1]) for e in log]
    exp_text = " ".join("call" if e == "call" else f"sleep({e[1]!r})" for e in exp_events)
    where = min(ncall_exp, ncall_got) - 1
    if ncall_got > ncall_exp:
        return "extra-attempt", ncall_exp - 1, f"{ncall_got} inner calls, expected {ncall_exp}: log [{show_log(log)}]"
    if ncall_got < ncall_exp:
        return "missing-attempt", ncall_got - 1, f"{ncall_got} inner calls, expected {ncall_exp}: log [{show_log(log)}]"
    if delay == 0:
        # sleeping for zero seconds and not sleeping are the same behaviour: zero-length sleeps are
        # neither demanded nor objected to, wherever they occur
        got_shape = [g for g in got_shape if g == "call" or g[1] != 0]
        exp_events = [e for e in exp_events if e == "call"]
    nsl_exp = len(exp_events) - ncall_exp
    nsl_got = len(got_shape) - ncall_got
    if got_shape != exp_events:
        if nsl_got > nsl_exp and got_shape[-1] != "call":
            kind = "sleep-after-last-attempt"
        elif nsl_got > nsl_exp:
            kind = "extra-sleep"
        elif nsl_got < nsl_exp:
            kind = "missing-sleep"
        elif [g for g in got_shape if g != "call"] != [e for e in exp_events if e != "call"]:
            kind = "sleep-argument"
        else:
            kind = "sleep-order"
        return kind, where, f"log [{show_log(log)}], expected [{exp_text}]"
    want_name, want_args = SHAPES[shape][1], SHAPES[shape][2]
    for e in log:
        if e[0] != "call":
            continue
        if e[1] != want_name:
            return "wrong-method", where, f"inner method {e[1]} called, expected {want_name}"
        if want_args is not None:
            a, kw = want_args
            same = (len(e[2]) == len(a) and all(x is y for x, y in zip(e[2], a))
                    and sorted(e[3]) == sorted(kw) and all(e[3][k] is kw[k] for k in kw))
            if not same:
                return "arguments-changed", where, f"inner call received {e[2]!r} {e[3]!r}, caller passed {a!r} {kw!r}"
        elif not e[2] or e[2][0] is not K:
            return "arguments-changed", where, f"inner call received {e[2]!r}, first argument should be the key"
    if exp_end[0] == "ret":
        want = dict(inner.returned).get(exp_end[1], "<nothing returned>")
        if shape in ("setitem", "delitem"):
            ok = ending[0] == "ret"  # statements: the value is dropped by the item protocol
        elif shape == "getitem" and want is None:
            ok = True  # item protocol's own reading of None (KeyError) is not C17's business
        else:
            ok = ending[0] == "ret" and ending[1] is want
        if not ok:
            kind = "result-changed" if ending[0] == "ret" else "raised-instead-of-returning"
            return kind, where, f"ended with {ending!r}, expected the result {want!r} of attempt {exp_end[1] + 1}"
    else:
        want = dict(inner.raised).get(exp_end[1])
        if ending[0] != "exc" or ending[1] is not want:
            kind = "returned-instead-of-raising" if ending[0] == "ret" else "wrong-exception-raised"
            return kind, where, f"ended with {ending!r}, expected the exception {want!r} of the final attempt to be raised"
    return None


def context(attempts, rf, dnr, seq, i):
    """The reference's decision after attempt i, with every reason that applies: the defect class."""
    if i is None or i < 0 or i >= len(seq):
        return "at=construction" if i is None else "at=start"
    sym = seq[i]
    if sym in SUCCESS:
        return f"after=returns-{sym}"
    cls = NAMES[sym]
    reasons = []
    if i == attempts - 1:
        reasons.append("last-attempt")
    if rf and not matches(cls, rf):
        reasons.append("not-in-retry_for")
    if dnr and matches(cls, dnr):
        reasons.append(f"in-do_not_retry_for({relation(cls, dnr)})")
    if reasons:
        return "must-stop:" + "+".join(reasons)
    return f"must-retry:retry_for={relation(cls, rf)}|do_not_retry_for={relation(cls, dnr)}"


def detail_of(attempts, delay, rfm, rsp, dnm, dsp, seq, shape):
    role = {c: r for r, c in NAMES.items()}
    return {"attempts": attempts, "retry_delay": delay, "retry_for": [role[c] for c in members(rfm)], "universe": UNIVERSE,
            "retry_for_spelling": rsp, "do_not_retry_for": [role[c] for c in members(dnm)],
            "do_not_retry_for_spelling": dsp, "sequence": list(seq), "shape": shape}


def one(chk, attempts, delay, rfm, rsp, dnm, dsp, seq, shape="op", general=()):
    """Run and judge one case.  `general`: signatures the same case produces through the plain entry
    point; an entry-point case is only reported (with |via=) when it fails differently from that."""
    rf, dnr = members(rfm), members(dnm)
    log, ending, inner = run_case(attempts, delay, spell(rfm, rsp), spell(dnm, dsp), seq, shape)
    chk.add()
    bad = judge(attempts, delay, rf, dnr, seq, shape, log, ending, inner)
    if bad:
        kind, i, text = bad
        sig = f"{kind}|{context(attempts, rf, dnr, seq, i)}"
        if UNIVERSE != "toy":
            sig += f"|classes={UNIVERSE}"
        if sig not in general:
            if shape not in ("op", "op-noargs"):
                sig += f"|via={shape}"
            chk.violation(
                sig,
                f"RetryingClient(attempts={attempts}, retry_delay={delay!r}, retry_for={show_coll(rf, rsp)}, "
                f"do_not_retry_for={show_coll(dnr, dsp)}).{shape}: wrapped call outcomes {list(seq)} -> {text}",
                detail_of(attempts, delay, rfm, rsp, dnm, dsp, seq, shape))
    return log, ending


def show_coll(ms, how):
    if how == "none":
        return "None"
    body = ", ".join(c.__name__ if isinstance(c, type) else repr(c) for c in ms)
    return {"tuple": f"({body}{',' if len(ms) == 1 else ''})", "list": f"[{body}]", "set": "{" + body + "}" if ms else "set()"}[how]


# ---------------------------------------------------------------------------
# jobs


def _jobs(tier):
    top = 3 if tier == "quick" else 5
    jobs = [("invalid",), ("shapes",), ("kwargs",), ("history",)]
    for attempts in range(top, 0, -1):
        for rfm in range(16):
            jobs.append(("grid", attempts, rfm, "toy"))
    for uni in ("lib", "builtin", "oserror"):
        for attempts in range(min(top, 3), 0, -1):
            for rfm in range(16):
                jobs.append(("grid", attempts, rfm, uni))
    return jobs


def seq_code(seq):
    n = 0
    for s in seq:
        n = n * 7 + SYMBOLS.index(s) + 1
    return n


def _grid(job, chk):
    _, attempts, rfm, uni = job
    use_universe(uni)
    rf = members(rfm)
    for dnm in range(16):
        if rfm & dnm:
            continue  # overlapping: judged by the 'invalid' job
        dnr = members(dnm)
        seqs = sequences(attempts, rf, dnr)
        chk.count("valid_configurations")
        chk.maximum("max_sequences_per_configuration", len(seqs))
        for seq in seqs:
            if any(s not in SUCCESS for s in seq):
                chk.outcome((attempts, rfm, dnm, seq_code(seq)))
            for rsp in spellings_for(rfm):
                for dsp in spellings_for(dnm):
                    for delay in DELAYS:
                        log, ending = one(chk, attempts, delay, rfm, rsp, dnm, dsp, seq)
        if uni == "toy" and attempts == 3 and rfm == 1 and dnm == 2:
            seq = ("SubB", "SubA")
            log, ending = run_case(3, 0.5, spell(rfm, "list"), spell(dnm, "set"), seq)[:2]
            chk.sample({"attempts": 3, "retry_delay": 0.5, "retry_for": "[Base]", "do_not_retry_for": "{SubA}",
                        "wrapped_call_outcomes": list(seq), "observed_log": show_log(log),
                        "ended": ending[0] + ":" + type(ending[1]).__name__ if len(ending) > 1 else ending[0]})
        if uni == "toy" and attempts == 2 and rfm == 8 and dnm == 0:
            seq = ("Other", "none")
            log, ending = run_case(2, 0, spell(rfm, "tuple"), None, seq)[:2]
            chk.sample({"attempts": 2, "retry_delay": 0, "retry_for": "(Other,)", "do_not_retry_for": None,
                        "wrapped_call_outcomes": list(seq), "observed_log": show_log(log),
                        "ended": repr(ending)})


def invalid_cases(tier):
    """-> list of (reason, kwargs-description dict) ; every one must be rejected at construction."""
    out = []
    # attempts < 1 with every valid pair of collections
    for attempts in (0, -1):
        for rfm in range(16):
            for dnm in range(16):
                if rfm & dnm:
                    continue
                for rsp in spellings_for(rfm):
                    for dsp in spellings_for(dnm):
                        out.append((f"attempts={attempts}", dict(attempts=attempts, rf=members(rfm), rsp=rsp,
                                                                 dnr=members(dnm), dsp=dsp)))
    # a class in both collections
    for attempts in (1, 2, 5):
        for rfm in range(16):
            for dnm in range(16):
                if not rfm & dnm:
                    continue
                for rsp in SPELLINGS[1:]:
                    for dsp in SPELLINGS[1:]:
                        out.append(("class-in-both-collections", dict(attempts=attempts, rf=members(rfm), rsp=rsp,
                                                                      dnr=members(dnm), dsp=dsp)))
    # members that are not exception classes, at every position of every subset, on either side
    for fam, table in (("non-exception-class", NONEXC_CLASSES), ("member-not-a-class", NONCLASS_MEMBERS)):
        for name, x in table.items():
            for mask in range(16):
                ms = members(mask)
                for pos in range(len(ms) + 1):
                    coll = ms[:pos] + [x] + ms[pos:]
                    for how in SPELLINGS[1:]:
                        if how == "set" and pos:
                            continue  # a set has no positions
                        out.append((f"{fam}:{name}|in=retry_for", dict(attempts=2, rf=coll, rsp=how, dnr=[], dsp="none")))
                        out.append((f"{fam}:{name}|in=do_not_retry_for", dict(attempts=2, rf=[], rsp="none", dnr=coll, dsp=how)))
    return out


def run_invalid(c):
    log = []
    inner = Inner(("obj",), log)
    try:
        RetryingClient(inner, attempts=c["attempts"], retry_delay=0, retry_for=spell(c["rf"], c["rsp"]),
                       do_not_retry_for=spell(c["dnr"], c["dsp"]))
    except Exception as e:  # noqa
        return e
    return None


def _invalid(chk):
    for reason, c in invalid_cases(chk.tier):
        e = run_invalid(c)
        chk.add()
        chk.count("invalid_configurations")
        chk.outcome(("invalid", reason, type(e).__name__))
        if e is None:
            chk.violation(
                f"accepted-invalid-configuration|{reason}",
                f"RetryingClient(attempts={c['attempts']}, retry_for={show_coll(c['rf'], c['rsp'])}, "
                f"do_not_retry_for={show_coll(c['dnr'], c['dsp'])}) was constructed without error",
                {"invalid": {"reason": reason, "attempts": c["attempts"], "rf": [member_name(m) for m in c["rf"]],
                             "rsp": c["rsp"], "dnr": [member_name(m) for m in c["dnr"]], "dsp": c["dsp"]}})
    chk.sample({"invalid_configuration": "retry_for=[Base, SubA], do_not_retry_for=(SubA,)",
                "constructor": repr(run_invalid(dict(attempts=2, rf=[Base, SubA], rsp="list", dnr=[SubA], dsp="tuple")))})


def member_name(m):
    for table in (NAMES, NONEXC_CLASSES, NONCLASS_MEMBERS):
        for k, v in table.items():
            if v is m:
                return k
    raise KeyError(m)


def member_of(name):
    for table in (NAMES, NONEXC_CLASSES, NONCLASS_MEMBERS):
        if name in table:
            return table[name]
    raise KeyError(name)


SHAPE_CONFIGS = [(0, 0), (1, 0), (0, 2), (1, 2), (8, 1)]  # (retry_for mask, do_not_retry_for mask)


def _shapes(chk):
    top = 3
    for shape in SHAPES:
        if shape == "op":
            continue
        for attempts in range(1, top + 1):
            for rfm, dnm in SHAPE_CONFIGS:
                for seq in sequences(attempts, members(rfm), members(dnm)):
                    if any(s not in SUCCESS for s in seq):
                        chk.outcome((shape, attempts, rfm, dnm, seq_code(seq)))
                    rsp, dsp = "tuple" if rfm else "none", "list" if dnm else "none"
                    plain = chk.fresh()
                    one(plain, attempts, 0.5, rfm, rsp, dnm, dsp, seq, "op")
                    one(chk, attempts, 0.5, rfm, rsp, dnm, dsp, seq, shape, general=plain.violations)
                    chk.count("entry_point_cases")


class _View:
    """The part of a long-lived scripted client's bookkeeping that belongs to one call (indices rebased)."""

    def __init__(self, inner, off):
        self.returned = [(i - off, v) for i, v in inner.returned if i >= off]
        self.raised = [(i - off, e) for i, e in inner.raised if i >= off]


def _history(chk, only=None):
    """One long-lived RetryingClient, several calls in a row: every call gets the full policy again (its own
    `attempts`, its own sleeps), whatever the earlier calls on the same object went through."""
    use_universe("toy")
    for attempts in (2, 3):
        for rfm, dnm in ((0, 0), (1, 0), (0, 2)):
            rf, dnr = members(rfm), members(dnm)
            seqs = [q for q in sequences(attempts, rf, dnr)]
            for s1, s2, s3 in itertools.product(seqs, repeat=3) if attempts == 2 else ((a, b, a) for a in seqs for b in seqs):
                key = [attempts, rfm, dnm, list(s1), list(s2), list(s3)]
                if only is not None and key != only:
                    continue
                log = []
                inner = Inner(s1 + s2 + s3, log)
                rc = construct(inner, attempts, 0.5, spell(rfm, "tuple") if rfm else None, spell(dnm, "list") if dnm else None)
                real = time.sleep
                R.sleep = time.sleep = lambda d=None, *a: log.append(("sleep", d))
                try:
                    off = 0
                    for n, seq in enumerate((s1, s2, s3), 1):
                        mark = len(log)
                        try:
                            ending = ("ret", rc.op(K, V, flag=FLAG))
                        except ScriptExhausted:
                            ending = ("overrun",)
                        except Exception as e:  # noqa
                            ending = ("exc", e)
                        bad = judge(attempts, 0.5, rf, dnr, seq, "op", log[mark:], ending, _View(inner, off))
                        chk.add()
                        if bad:
                            kind, i, text = bad
                            chk.violation(f"{kind}|{context(attempts, rf, dnr, seq, i)}|call-{n}-on-the-same-object",
                                          f"RetryingClient(attempts={attempts}, retry_delay=0.5, retry_for={show_coll(rf, 'tuple' if rfm else 'none')}, "
                                          f"do_not_retry_for={show_coll(dnr, 'list' if dnm else 'none')}), calls with wrapped outcomes "
                                          f"{list(s1)}, {list(s2)}, {list(s3)} on one object: call {n} -> {text}",
                                          {"history_case": key})
                            break
                        off += len(seq)
                finally:
                    time.sleep = real
                chk.outcome(("history", attempts, rfm, dnm, seq_code(s1), seq_code(s2), seq_code(s3)))


class KwInner:
    """Wrapped client with the real Client's method signatures: records how each call arrived."""

    def __init__(self, fail_first):
        self.calls = []
        self.fail_first = fail_first


def _mk_kw(name, sig):
    def f(self, *a, **kw):
        self.calls.append((name, a, kw))
        if len(self.calls) <= self.fail_first:
            raise Base(f"attempt {len(self.calls)}")
        return ("result", name)

    f.__name__ = name
    f.__signature__ = sig
    return f


import inspect as _inspect  # noqa: E402

for _n in CLIENT_METHODS + ["get", "set", "delete", "touch"]:
    setattr(KwInner, _n, _mk_kw(_n, _inspect.signature(getattr(_RealClient, _n))))


def _kwargs(chk, only=None):
    """Every public Client method called through RetryingClient with ALL of its parameters passed by keyword
    (their real names): the wrapped method receives exactly those keyword arguments, on every attempt."""
    marker = object()
    for name in sorted(set(CLIENT_METHODS + ["get", "set", "delete", "touch"])):
        if only is not None and name != only:
            continue
        params = [p for p in list(_inspect.signature(getattr(_RealClient, name)).parameters.values())[1:]
                  if p.kind in (p.POSITIONAL_OR_KEYWORD, p.KEYWORD_ONLY)]
        kw = {p.name: (marker, p.name) for p in params}
        for fail_first in (0, 1):
            inner = KwInner(fail_first)
            rc = RetryingClient(inner, attempts=2, retry_delay=0)
            try:
                res = ("ret", getattr(rc, name)(**kw))
            except Exception as e:  # noqa
                res = ("exc", e)
            chk.add()
            chk.outcome(("kwargs", name, fail_first, res[0]))
            want_calls = [(name, (), kw)] * (fail_first + 1)
            bad = None
            if res[0] == "exc":
                bad = f"raised {type(res[1]).__name__}: {res[1]}"
            elif inner.calls != want_calls:
                bad = f"the wrapped method was called as {inner.calls!r}"
            if bad:
                chk.violation(f"keyword-arguments-not-forwarded|{name}",
                              f"RetryingClient(attempts=2).{name}({', '.join(k + '=...' for k in kw)}) with the wrapped call failing "
                              f"{fail_first} time(s) first: {bad}; expected {fail_first + 1} call(s) with exactly these keyword arguments",
                              {"kwargs_call": name})


def _worker(job, chk):
    use_universe("toy")
    if job[0] == "grid":
        _grid(job, chk)
    elif job[0] == "kwargs":
        _kwargs(chk)
    elif job[0] == "history":
        _history(chk)
    elif job[0] == "invalid":
        _invalid(chk)
    elif job[0] == "shapes":
        _shapes(chk)
    else:
        raise runner.HarnessError(f"unknown job {job!r}")


def run(chk):
    chk.rule = RULE
    chk.assumptions = [
        "the wrapped client is a scripted object whose methods are ordinary attributes (listed by dir()); each "
        "attempt raises a fresh exception instance / returns a fresh object, so identity tells attempts apart",
        "an empty retry_for / do_not_retry_for collection means 'not given' (the statement does not distinguish "
        "it from None)",
        "only Exception subclasses are raised by the wrapped call; BaseException-only classes, a bare class or "
        "other non-collection given as retry_for, frozenset, and duplicate members are outside the statement "
        "and not judged",
        "'rejected at construction' = the constructor raises any Exception; the type is recorded, not judged",
        "sleep(0) is the same behaviour as not sleeping: with retry_delay=0 only the calls and non-zero sleeps "
        "are compared",
        "sleep is observed by rebinding `sleep` in pymemcache.client.retrying and time.sleep for the duration "
        "of the call",
    ]
    chk.info["attempts_max"] = 3 if chk.tier == "quick" else 5
    runner.parallel(chk, _worker, _jobs(chk.tier))


def replay(detail):
    chk = runner.Check(PROPERTY, LEVEL, "replay", 0)
    if "invalid" in detail:
        d = detail["invalid"]
        c = dict(attempts=d["attempts"], rf=[member_of(n) for n in d["rf"]], rsp=d["rsp"],
                 dnr=[member_of(n) for n in d["dnr"]], dsp=d["dsp"])
        e = run_invalid(c)
        print(f"    RetryingClient(attempts={c['attempts']}, retry_for={show_coll(c['rf'], c['rsp'])}, "
              f"do_not_retry_for={show_coll(c['dnr'], c['dsp'])}) -> {'constructed' if e is None else repr(e)}")
        return [] if e is not None else [f"invalid configuration ({d['reason']}) accepted"]
    use_universe(detail.get("universe", "toy"))
    if "history_case" in detail:
        tmp = runner.Check(PROPERTY, LEVEL, "replay", 0)
        _history(tmp, only=detail["history_case"])
        return [v["what"] for v in tmp.violations.values()]
    if "kwargs_call" in detail:
        tmp = runner.Check(PROPERTY, LEVEL, "replay", 0)
        _kwargs(tmp, only=detail["kwargs_call"])
        return [v["what"] for v in tmp.violations.values()]
    mask = lambda names: sum(1 << CLASSES.index(NAMES[n]) for n in names)  # noqa
    rfm, dnm = mask(detail["retry_for"]), mask(detail["do_not_retry_for"])
    delay = detail["retry_delay"]
    seq = tuple(detail["sequence"])
    log, ending = one(chk, detail["attempts"], delay, rfm, detail["retry_for_spelling"], dnm,
                      detail["do_not_retry_for_spelling"], seq, detail.get("shape", "op"))
    exp_events, exp_end = reference(detail["attempts"], members(rfm), members(dnm), delay, seq)
    print(f"    wrapped call outcomes: {list(seq)}")
    print(f"    observed log : {show_log(log)}   ended: {ending!r}")
    print("    reference log: " + " ".join("call" if e == "call" else f"sleep({e[1]!r})" for e in exp_events)
          + f"   ends: {'returns result of' if exp_end[0] == 'ret' else 'raises exception of'} attempt {exp_end[1] + 1}")
    return [v["what"] for v in chk.violations.values()]
