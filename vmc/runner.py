"""Runner: environment pinning, evidence, findings, violation reporting, parallel map.

A check module (checks/cNN.py) exposes

    PROPERTY = "C01"; LEVEL = "fault_enumeration"
    def run(check: Check) -> None            # explores, records into `check`
    def replay(detail: dict) -> list[str]    # re-executes one recorded case, returns violation texts

The CLI (vmc/__main__.py) builds the Check, calls run(), then Check.finish().
"""

from __future__ import annotations

import hashlib
import json
import multiprocessing
import os
import sys
import time
import traceback

VERIF_DIR = os.path.dirname(os.path.dirname(os.path.abspath(__file__)))
_OUT = os.environ.get("VERIF_OUT") or VERIF_DIR  # mutant runs write elsewhere
EVIDENCE_DIR = os.path.join(_OUT, "evidence")
REPLAY_DIR = os.path.join(_OUT, "replays")
FINDINGS_FILE = os.path.join(VERIF_DIR, "known_findings.json")
NPROC = int(os.environ.get("VERIF_NPROC", "0")) or min(16, os.cpu_count() or 1)


class HarnessError(Exception):
    """The checking machinery itself misbehaved (nondeterminism, bad replay prefix).
    Reported with exit status 2; never a verdict about the library."""


def repo_dir() -> str:
    return os.path.realpath(os.environ.get("VERIF_REPO", "/repo"))


def bootstrap() -> None:
    """Pin the interpreter environment and import pymemcache from the working tree."""
    want = {"PYTHONHASHSEED": "0", "PYTHONDONTWRITEBYTECODE": "1"}
    if any(os.environ.get(k) != v for k, v in want.items()):
        env = dict(os.environ)
        env.update(want)
        os.execve(sys.executable, [sys.executable, "-m", "vmc"] + sys.argv[1:], env)
    repo = repo_dir()
    sys.path.insert(0, repo)
    import pymemcache  # noqa

    f = os.path.realpath(pymemcache.__file__)
    if not f.startswith(repo + os.sep):
        raise HarnessError(f"pymemcache imported from {f}, not from {repo}")


def jdefault(o):
    if isinstance(o, bytes):
        try:
            s = o.decode("ascii")
            if s.isprintable() or all(c.isprintable() or c in "\r\n\t" for c in s):
                return "b:" + s
        except UnicodeDecodeError:
            pass
        return "hex:" + o.hex()
    if isinstance(o, (set, frozenset)):
        return sorted(map(repr, o))
    if isinstance(o, tuple):
        return list(o)
    if isinstance(o, type):
        return o.__name__
    return repr(o)


def jclean(o, depth=0):
    """Make a value JSON-serialisable (bytes keys, tuples, exceptions...)."""
    if depth > 12:
        return repr(o)
    if o is None or isinstance(o, (bool, int, float, str)):
        if isinstance(o, int) and abs(o) > 2**62:
            return str(o)
        return o
    if isinstance(o, bytes):
        return jdefault(o)
    if isinstance(o, dict):
        return {
            (k if isinstance(k, str) else repr(k)): jclean(v, depth + 1)
            for k, v in o.items()
        }
    if isinstance(o, (list, tuple)):
        return [jclean(v, depth + 1) for v in o]
    return jdefault(o)


class Check:
    """Accumulates coverage and violations; usable in workers (to_partial / merge)."""

    MAX_SAMPLES = 6

    def __init__(self, pid: str, level: str, tier: str, seed: int):
        self.pid = pid
        self.level = level
        self.tier = tier
        self.seed = seed
        self.t0 = time.time()
        self.evaluations = 0
        self.classes: set = set()
        self.samples: list = []
        self.violations: dict = {}  # signature -> {"what","count","detail"}
        self.counters: dict = {}  # free-form integer counters (summed on merge)
        self.maxima: dict = {}  # free-form maxima
        self.info: dict = {}  # free-form facts written into coverage
        self.rule = ""
        self.assumptions: list = []
        self.exhaustive = True
        self.caps: list = []

    # -- recording ---------------------------------------------------------
    def add(self, n: int = 1) -> None:
        self.evaluations += n

    def outcome(self, cls) -> None:
        """Record one distinct non-trivial outcome class (hashable, small)."""
        self.classes.add(cls)

    def count(self, name: str, n: int = 1) -> None:
        self.counters[name] = self.counters.get(name, 0) + n

    def maximum(self, name: str, v) -> None:
        if name not in self.maxima or v > self.maxima[name]:
            self.maxima[name] = v

    def sample(self, s) -> None:
        if len(self.samples) < self.MAX_SAMPLES:
            self.samples.append(jclean(s))

    def cap(self, text: str) -> None:
        self.exhaustive = False
        if text not in self.caps:
            self.caps.append(text)

    def violation(self, signature: str, what: str, detail: dict) -> None:
        v = self.violations.get(signature)
        if v is None:
            self.violations[signature] = {
                "what": what,
                "count": 1,
                "detail": jclean(detail),
            }
        else:
            v["count"] += 1

    # -- worker plumbing ---------------------------------------------------
    def to_partial(self) -> dict:
        return {
            "evaluations": self.evaluations,
            "classes": self.classes,
            "samples": self.samples,
            "violations": self.violations,
            "counters": self.counters,
            "maxima": self.maxima,
            "caps": self.caps,
            "exhaustive": self.exhaustive,
        }

    def merge(self, p: dict) -> None:
        self.evaluations += p["evaluations"]
        self.classes |= p["classes"]
        for s in p["samples"]:
            if len(self.samples) < self.MAX_SAMPLES:
                self.samples.append(s)
        for sig, v in p["violations"].items():
            mine = self.violations.get(sig)
            if mine is None:
                self.violations[sig] = dict(v)
            else:
                mine["count"] += v["count"]
        for k, n in p["counters"].items():
            self.counters[k] = self.counters.get(k, 0) + n
        for k, n in p["maxima"].items():
            self.maximum(k, n)
        for c in p["caps"]:
            self.cap(c)
        if not p["exhaustive"]:
            self.exhaustive = False

    def fresh(self) -> "Check":
        return Check(self.pid, self.level, self.tier, self.seed)

    # -- finishing ---------------------------------------------------------
    def finish(self) -> int:
        known = load_findings().get(self.pid, {})
        unknown = []
        for sig in sorted(self.violations):
            v = self.violations[sig]
            if sig in known:
                print(
                    f"KNOWN-FINDING: property={self.pid} {known[sig]} "
                    f"[{sig}] ({v['count']} case(s) in this run)"
                )
            else:
                unknown.append(sig)
        os.makedirs(REPLAY_DIR, exist_ok=True)
        for n, sig in enumerate(unknown):
            v = self.violations[sig]
            if n >= int(os.environ.get("VERIF_MAXREPORT", "25")):
                print(f"  ... and {len(unknown) - 25} more violation signatures (not written out)")
                break
            digest = hashlib.sha1(sig.encode()).hexdigest()[:10]
            path = os.path.join(REPLAY_DIR, f"{self.pid}-{digest}.json")
            with open(path, "w") as f:
                json.dump(
                    {
                        "property": self.pid,
                        "signature": sig,
                        "what": v["what"],
                        "count": v["count"],
                        "detail": v["detail"],
                    },
                    f,
                    indent=1,
                    default=jdefault,
                )
            print(f"  violation [{sig}]: {v['what']} ({v['count']} case(s))")
            print(f"VIOLATION property={self.pid} replay={path}")
        wall = time.time() - self.t0
        cov = {
            "evaluations": self.evaluations,
            "distinct_nontrivial": len(self.classes),
            "rule": self.rule,
            "samples": self.samples[: self.MAX_SAMPLES],
            "exhaustive": bool(self.exhaustive),
            "caps_hit": self.caps,
        }
        cov.update(self.counters)
        cov.update(self.maxima)
        cov.update(self.info)
        if self.level == "model_checking":
            cov.setdefault("states", 0)
            cov.setdefault("transitions", 0)
            cov.setdefault("traces_validated_against_impl", 0)
        ev = {
            "property_id": self.pid,
            "tier": self.tier,
            "seed": self.seed,
            "level": self.level,
            "coverage": cov,
            "assumptions": self.assumptions,
            "wall_s": round(wall, 3),
            "violations": len(unknown),
            "known_findings_seen": sorted(s for s in self.violations if s in known),
            "repo": repo_dir(),
        }
        os.makedirs(EVIDENCE_DIR, exist_ok=True)
        tmp = os.path.join(EVIDENCE_DIR, f".{self.pid}.{os.getpid()}.tmp")
        with open(tmp, "w") as f:
            json.dump(ev, f, indent=1, default=jdefault)
            f.write("\n")
        os.replace(tmp, os.path.join(EVIDENCE_DIR, f"{self.pid}.json"))
        extra = " ".join(f"{k}={v}" for k, v in sorted({**self.counters, **self.maxima}.items()))
        print(
            f"{self.pid} {self.tier}: evaluations={self.evaluations} "
            f"distinct_nontrivial={len(self.classes)} {extra} "
            f"exhaustive={self.exhaustive} violations={len(unknown)} "
            f"known={len(self.violations) - len(unknown)} wall={wall:.1f}s"
        )
        if self.caps:
            print("  caps hit: " + "; ".join(self.caps))
        if len(self.classes) < 2 and not unknown:
            # a vacuous harness is a machinery defect, not a verdict
            print(f"HARNESS-ERROR: {self.pid} saw <2 distinct outcome classes (vacuous)")
            return 2
        return 1 if unknown else 0


def load_findings() -> dict:
    """property -> {signature: what} for entries with status 'known'."""
    out: dict = {}
    try:
        with open(FINDINGS_FILE) as f:
            data = json.load(f)
    except FileNotFoundError:
        return out
    for e in data.get("findings", []):
        out.setdefault(e["property"], {})[e["signature"]] = e["what"]
    return out


# ---------------------------------------------------------------------------
# parallel map over jobs: worker(job, check) records into a fresh Check


_WORKER_FN = None
_WORKER_PROTO = None


def _pool_entry(job):
    chk = _WORKER_PROTO.fresh()
    try:
        _WORKER_FN(job, chk)
    except HarnessError:
        raise
    except BaseException as e:  # a harness crash must not be silently dropped
        tb = traceback.extract_tb(e.__traceback__)
        inner = tb[-1] if tb else None
        lib = repo_dir() + os.sep
        if inner is not None and os.path.realpath(inner.filename).startswith(lib) and isinstance(e, Exception):
            # The library itself raised, at a point of a scenario where the harness's script admits no
            # exception (on the unchanged tree this never happens: every check runs to completion).  That
            # is behaviour of the code under test, not of the machinery: report it as a violation of the
            # property whose scenario it broke, with the place that raised, and keep what was explored.
            where = f"{os.path.relpath(inner.filename, lib)}:{inner.name}"
            chk.violation(f"library-raised-outside-a-judged-call|{type(e).__name__}|{where}",
                          f"while the harness was setting up or observing a scenario (job {job!r}) the library raised "
                          f"{type(e).__name__}: {e} at {where} line {inner.lineno}; the scenario admits no exception there",
                          {"harness_job": repr(job)})
            return chk.to_partial()
        raise HarnessError(
            f"worker crashed on job {job!r}: {type(e).__name__}: {e}\n"
            + traceback.format_exc()
        )
    return chk.to_partial()


def parallel(check: Check, worker, jobs: list, nproc: int | None = None, chunksize: int = 1):
    """Run worker(job, partial_check) for every job on a fork pool and merge."""
    global _WORKER_FN, _WORKER_PROTO
    nproc = nproc or NPROC
    jobs = list(jobs)
    if check.seed and len(jobs) > 1:
        r = check.seed % len(jobs)
        jobs = jobs[r:] + jobs[:r]  # the seed only rotates the visiting order
    _WORKER_FN, _WORKER_PROTO = worker, check
    if nproc <= 1 or len(jobs) <= 1:
        for j in jobs:
            check.merge(_pool_entry(j))
        return
    ctx = multiprocessing.get_context("fork")
    with ctx.Pool(nproc) as pool:
        for part in pool.imap_unordered(_pool_entry, jobs, chunksize=chunksize):
            check.merge(part)
