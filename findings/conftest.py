"""Plain regression tests for what the model-checking runs found (no explorer, no vmc import).

Run with:  /venv/bin/python -m pytest -q -p no:cacheprovider --no-cov /verif/findings
(the pymemcache under test is the one on sys.path: /repo by default, or VERIF_REPO).
"""
import os
import sys

sys.path.insert(0, os.environ.get("VERIF_REPO", "/repo"))
