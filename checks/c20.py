"""C20 - key validation accepts exactly the documented legal keys.

Bounded-exhaustive enumeration of keys (all keys of length <= 2 over the full alphabet, length 3
over a class projection, every byte at every position of keys of length 249..251, byte lengths
around the limit for 1-4 byte UTF-8 characters) x prefixes x allow_unicode_keys x str/bytes,
through check_key_helper, Client.check_key, PooledClient.check_key and the HashClient call
path, against an independent legality predicate (vmc/keyspace.py).
"""

from __future__ import annotations

from pymemcache.client.base import Client, PooledClient, check_key_helper
from pymemcache.client.hash import HashClient
from pymemcache.exceptions import MemcacheIllegalInputError

from vmc import keyspace, runner

PROPERTY = "C20"
LEVEL = "exploration"
RULE = (
    "cases = key x prefix x allow_unicode_keys x entry point; keys: all str and bytes keys of length <=2 "
    "(quick: <=1 full, 2 over the class projection) over code points/bytes 0..255 (+6 higher code points), "
    "length 3 over a 16-class projection, every byte value at every position of 249/250/251-byte keys, "
    "lengths around 250 for 1-4 byte UTF-8 characters; non-trivial = the key is illegal or within 3 bytes of "
    "the length limit or non-ASCII; distinct = distinct (reason class, prefix, unicode flag, entry point)"
)


mod_reply = [b"END\r\n"]  # what the recording socket answers (set per operation)


class RecSock:
    def __init__(self, log):
        self.log = log

    def setsockopt(self, *a): pass
    def settimeout(self, t): pass
    def connect(self, a): pass
    def sendall(self, d): self.log.append(bytes(d))
    def recv(self, n): return mod_reply[0]
    def close(self): pass


class RecModule:
    AF_UNIX = 1
    SOCK_STREAM = 1

    def __init__(self):
        self.log = []

    def socket(self, *a):
        return RecSock(self.log)


class DownSock(RecSock):
    def connect(self, a):
        raise ConnectionRefusedError(111, "Connection refused")


class DownModule(RecModule):
    """The server is not there: every connect is refused."""

    def socket(self, *a):
        return DownSock(self.log)


# (operation, call, reply the fake server gives, position of the key among the words of the command line)
WIRE_OPS = [("gets", lambda o, k: o.gets(k), b"END\r\n", 1), ("gat", lambda o, k: o.gat(k, expire=30), b"END\r\n", 2),
            ("gats", lambda o, k: o.gats(k, expire=30), b"END\r\n", 2),
            ("set", lambda o, k: o.set(k, b"v", noreply=True), b"STORED\r\n", 1),
            ("cas", lambda o, k: o.cas(k, b"v", b"1", noreply=True), b"STORED\r\n", 1),
            ("append", lambda o, k: o.append(k, b"v", noreply=True), b"STORED\r\n", 1),
            ("delete", lambda o, k: o.delete(k, noreply=True), b"DELETED\r\n", 1),
            ("incr", lambda o, k: o.incr(k, 1, noreply=True), b"1\r\n", 1),
            ("touch", lambda o, k: o.touch(k, 30, noreply=True), b"TOUCHED\r\n", 1),
            ("get_many", lambda o, k: o.get_many([k]), b"END\r\n", 1),
            ("delete_many", lambda o, k: o.delete_many([k], noreply=True), b"DELETED\r\n", 1)]

# an illegal key is reported as such whether or not the server can be reached, by every kind of operation
DOWN_OPS = [("get", lambda o, k: o.get(k)), ("set", lambda o, k: o.set(k, b"v", noreply=False)),
            ("add", lambda o, k: o.add(k, b"v")), ("cas", lambda o, k: o.cas(k, b"v", b"1")),
            ("set_many", lambda o, k: o.set_many({k: b"v"})), ("get_many", lambda o, k: o.get_many([k])),
            ("delete", lambda o, k: o.delete(k)), ("incr", lambda o, k: o.incr(k, 1)),
            ("touch", lambda o, k: o.touch(k, 5)), ("gets", lambda o, k: o.gets(k)),
            ("delete_many", lambda o, k: o.delete_many([k])), ("append", lambda o, k: o.append(k, b"v"))]


def verdicts(key, prefix, uni, hash_too):
    """[(entry point, 'ok'|'illegal'|'other:<Type>', wire or None)]"""
    out = []
    mod_reply[0] = b"END\r\n"
    try:
        out.append(("check_key_helper", "ok", check_key_helper(key, uni, prefix)))
    except MemcacheIllegalInputError:
        out.append(("check_key_helper", "illegal", None))
    except Exception as e:
        out.append(("check_key_helper", "other:" + type(e).__name__, None))
    c = Client("/s", key_prefix=prefix, allow_unicode_keys=uni)
    try:
        out.append(("Client.check_key", "ok", c.check_key(key, c.key_prefix)))
    except MemcacheIllegalInputError:
        out.append(("Client.check_key", "illegal", None))
    except Exception as e:
        out.append(("Client.check_key", "other:" + type(e).__name__, None))
    p = PooledClient("/s", key_prefix=prefix, allow_unicode_keys=uni)
    try:
        out.append(("PooledClient.check_key", "ok", p.check_key(key)))
    except MemcacheIllegalInputError:
        out.append(("PooledClient.check_key", "illegal", None))
    except Exception as e:
        out.append(("PooledClient.check_key", "other:" + type(e).__name__, None))
    if hash_too:
        for cls, name, args, kw in (
                (Client, "Client.get", ("/s",), {}), (PooledClient, "PooledClient.get", ("/s",), {}),
                (HashClient, "HashClient.get", (["/s"],), {}),
                (Client, "Client(ignore_exc).get", ("/s",), {"ignore_exc": True}),
                (PooledClient, "PooledClient(ignore_exc).get", ("/s",), {"ignore_exc": True}),
                (HashClient, "HashClient(ignore_exc).get", (["/s"],), {"ignore_exc": True}),
                (HashClient, "HashClient(pooled,ignore_exc).get", (["/s"],), {"ignore_exc": True, "use_pooling": True}),
                # the value encoding must not leak into key validation
                (Client, "Client(encoding=utf8).get", ("/s",), {"encoding": "utf8"}),
                (PooledClient, "PooledClient(encoding=latin-1).get", ("/s",), {"encoding": "latin-1"}),
                (HashClient, "HashClient(encoding=utf8).get", (["/s"],), {"encoding": "utf8"}),
                # no server in rotation: an illegal key is still an illegal key
                (HashClient, "HashClient(no servers).get", ([],), {}),
                (HashClient, "HashClient(no servers,ignore_exc).get", ([],), {"ignore_exc": True})):
            mod = RecModule()
            h = cls(*args, key_prefix=prefix, allow_unicode_keys=uni, socket_module=mod, **kw)
            noserv = "no servers" in name
            try:
                r = h.get(key, "MISS")
                sent = b"".join(mod.log)
                if not sent:
                    out.append((name, "no-server-default" if noserv else "silently-ignored", None))
                    continue
                wire = sent[4:-2] if sent.startswith(b"get ") and sent.endswith(b"\r\n") else sent
                out.append((name, "ok", wire))
            except MemcacheIllegalInputError:
                out.append((name, "illegal" if not mod.log else "illegal-after-sending", None))
            except Exception as e:
                if noserv and type(e).__name__ == "MemcacheError":
                    out.append((name, "no-server-error", None))
                else:
                    out.append((name, "other:" + type(e).__name__, None))
        # every kind of key-addressed operation validates and transmits the key the same way
        for cls, cname, args in ((Client, "Client", ("/s",)), (PooledClient, "PooledClient", ("/s",)),
                                 (HashClient, "HashClient", (["/s"],))):
            for opname, call, reply, pos in WIRE_OPS:
                mod = RecModule()
                mod_reply[0] = reply
                h = cls(*args, key_prefix=prefix, allow_unicode_keys=uni, socket_module=mod)
                name = f"{cname}.{opname}"
                try:
                    call(h, key)
                    sent = b"".join(mod.log)
                    toks = sent.split(b"\r\n")[0].split(b" ")
                    out.append((name, "ok" if sent else "silently-ignored", toks[pos] if len(toks) > pos else sent))
                except MemcacheIllegalInputError:
                    out.append((name, "illegal" if not mod.log else "illegal-after-sending", None))
                except Exception as e:
                    out.append((name, "other:" + type(e).__name__, None))
        mod_reply[0] = b"END\r\n"
        for cls, cname, args in ((Client, "Client", ("/s",)), (PooledClient, "PooledClient", ("/s",)),
                                 (HashClient, "HashClient", (["/s"],))):
            for opname, call in DOWN_OPS:
                mod = DownModule()
                h = cls(*args, key_prefix=prefix, allow_unicode_keys=uni, socket_module=mod)
                name = f"{cname}.{opname}[server down]"
                try:
                    call(h, key)
                    out.append((name, "down-no-error", None))
                except MemcacheIllegalInputError:
                    out.append((name, "illegal", None))
                except ConnectionRefusedError:
                    out.append((name, "down-refused", None))
                except Exception as e:
                    out.append((name, "other:" + type(e).__name__, None))
    return out


def judge(chk, key, prefix, uni_cfg, hash_too):
    uni = bool(uni_cfg)  # the oracle's reading of the flag; the library receives the value as configured
    verdict, wire = keyspace.legal(key, prefix, uni)
    chk.add()
    if verdict == "outside":
        return
    rs = keyspace.reason(key, prefix, uni)
    if verdict == "illegal" or "len" in rs or "high" in rs:
        chk.outcome((rs, len(prefix), uni, hash_too))
    for name, got, w in verdicts(key, prefix, uni_cfg, hash_too):
        bad = None
        if got in ("down-refused", "down-no-error"):
            if verdict == "illegal":
                bad = ("illegal-key-not-reported", "did not raise MemcacheIllegalInputError for an illegal key "
                       f"({'ConnectionRefusedError instead' if got == 'down-refused' else 'no error at all'})")
        elif got in ("no-server-default", "no-server-error"):
            # nothing can be sent; a legal key gets the default / 'all servers down'; an illegal key must still be rejected
            if verdict == "illegal":
                bad = ("illegal-key-not-reported", "did not raise MemcacheIllegalInputError for an illegal key "
                       f"({'returned the default' if got == 'no-server-default' else 'raised MemcacheError instead'})")
        elif got.startswith("other"):
            bad = ("wrong-exception", f"raised {got[6:]} instead of accepting or MemcacheIllegalInputError")
        elif got == "silently-ignored":
            if verdict == "illegal":
                bad = ("illegal-key-not-reported", "neither sent anything nor raised MemcacheIllegalInputError (returned the default)")
            else:
                bad = ("legal-key-not-sent", "returned the default without sending the key")
        elif got == "illegal-after-sending":
            bad = ("rejected-after-sending", "rejected the key only after bytes had been written")
        elif verdict == "legal" and got != "ok":
            bad = ("rejects-legal", "rejected a legal key")
        elif verdict == "illegal" and got == "ok":
            bad = ("accepts-illegal", f"accepted an illegal key (wire form {w!r})")
        elif verdict == "legal" and w != wire:
            bad = ("wire-form", f"returned/transmitted {w!r}, expected prefix+encoded key {wire!r}")
        if bad:
            sig = f"{bad[0]}|{name}|{rs}|unicode={uni_cfg!r}"
            chk.violation(sig, f"{name}(key={key!r}, prefix={prefix[:12]!r}{'...' if len(prefix) > 12 else ''} "
                          f"[{len(prefix)} bytes], allow_unicode_keys={uni_cfg!r}) {bad[1]}",
                          {"key": key if isinstance(key, str) else {"hex": key.hex()}, "is_str": isinstance(key, str),
                           "prefix_hex": prefix.hex(), "unicode": uni_cfg, "hash_too": hash_too})


def _verdict(fn):
    try:
        return ("ok", fn())
    except MemcacheIllegalInputError:
        return ("illegal", None)
    except Exception as e:  # noqa
        return ("other:" + type(e).__name__, None)


def history_cases(key, prefix, uni):
    """Validation has no memory: the verdict and wire form for (key, prefix) on a long-lived client are
    the same whatever was validated before - the same key under another prefix (stats and
    cache_memlimit validate their arguments without the prefix), or another key.
    Yields (label, verdict after the history, verdict on a fresh client)."""
    other = b"" if prefix else b"zz:"
    fresh = _verdict(lambda: Client("/s", key_prefix=prefix, allow_unicode_keys=uni).check_key(key, prefix))
    c = Client("/s", key_prefix=prefix, allow_unicode_keys=uni)
    _verdict(lambda: c.check_key(key, other))
    yield f"check_key(k, {other!r}); check_key(k, prefix)", _verdict(lambda: c.check_key(key, prefix)), fresh
    fresh_o = _verdict(lambda: Client("/s", key_prefix=prefix, allow_unicode_keys=uni).check_key(key, other))
    c = Client("/s", key_prefix=prefix, allow_unicode_keys=uni)
    _verdict(lambda: c.check_key(key, prefix))
    yield f"check_key(k, prefix); check_key(k, {other!r})", _verdict(lambda: c.check_key(key, other)), fresh_o
    for cls, args in ((Client, ("/s",)), (PooledClient, ("/s",)), (HashClient, (["/s"],))):
        def wire_of_get(obj, mod):
            mod.log.clear()
            obj.get(key)
            return b"".join(mod.log)

        mod = RecModule()
        fresh_w = _verdict(lambda: wire_of_get(cls(*args, key_prefix=prefix, allow_unicode_keys=uni, socket_module=mod), mod))
        mod = RecModule()
        obj = cls(*args, key_prefix=prefix, allow_unicode_keys=uni, socket_module=mod)
        if hasattr(obj, "stats"):
            _verdict(lambda: obj.stats(key))
            yield f"{cls.__name__}: stats(k); get(k)", _verdict(lambda: wire_of_get(obj, mod)), fresh_w
    # refusing keys costs nothing: after any number of refused calls a bounded pool still serves the next one
    for cls, args, kw in ((PooledClient, ("/s",), {"max_pool_size": 1}),
                          (HashClient, (["/s"],), {"use_pooling": True, "max_pool_size": 1})):
        def wire_of_get2(obj, mod):
            mod.log.clear()
            obj.get(key)
            return b"".join(mod.log)

        mod = RecModule()
        fresh_w = _verdict(lambda: wire_of_get2(cls(*args, key_prefix=prefix, allow_unicode_keys=uni, socket_module=mod, **kw), mod))
        mod = RecModule()
        obj = cls(*args, key_prefix=prefix, allow_unicode_keys=uni, socket_module=mod, **kw)
        for bad_key in (b"bad key", "tab\tkey", b"x" * 300):
            _verdict(lambda: obj.get(bad_key))
            _verdict(lambda: obj.set(bad_key, b"v"))
        yield f"{cls.__name__}(max_pool_size=1): six refused calls; get(k)", _verdict(lambda: wire_of_get2(obj, mod)), fresh_w


def _worker(job, chk):
    kind, as_str, prefix, uni, tier = job
    if kind == "history":
        for k in keyspace.class_keys(2, as_str):
            if keyspace.legal(k, prefix, bool(uni))[0] == "outside":
                continue
            for label, got, want in history_cases(k, prefix, uni):
                chk.add()
                chk.outcome(("history", label.split(":")[0][:24], got[0], len(prefix), uni))
                if got != want:
                    chk.violation(f"validation-depends-on-history|{label.split('(')[0]}|{keyspace.reason(k, prefix, bool(uni))}",
                                  f"key={k!r}, prefix={prefix[:12]!r}, allow_unicode_keys={uni}: after [{label}] the last call gives "
                                  f"{got!r}; on a fresh client it gives {want!r}",
                                  {"key": k if isinstance(k, str) else {"hex": k.hex()}, "is_str": isinstance(k, str),
                                   "prefix_hex": prefix.hex(), "unicode": uni, "hash_too": True, "history": True})
        return
    if kind == "short":
        n = 1 if tier == "quick" else 2
        for k in keyspace.short_keys(n, as_str):
            judge(chk, k, prefix, uni, len(k) <= 1)
    elif kind == "class2":
        for k in keyspace.class_keys(2, as_str):
            judge(chk, k, prefix, uni, True)
    elif kind == "class3":
        for k in keyspace.class_keys(3, as_str):
            judge(chk, k, prefix, uni, tier != "quick")
    elif kind == "long":
        room = 250 - len(prefix)
        lengths = [L for L in (room - 1, room, room + 1) if L > 0]
        stride = 7 if tier == "quick" else 1
        vals = keyspace.CLASS_BYTES if tier == "quick" else range(256)
        for k in keyspace.long_keys(as_str, vals, lengths, stride):
            judge(chk, k, prefix, uni, False)
    elif kind == "boundary":
        for k in keyspace.boundary_keys(len(prefix), prefix):
            if isinstance(k, str) == as_str:
                judge(chk, k, prefix, uni, True)
    if kind == "class2" and uni and as_str and prefix == b"ns:":
        chk.sample({"key": "\té", "prefix": "ns:", "allow_unicode_keys": True,
                    "oracle": keyspace.legal("\té", b"ns:", True)[0]})
        chk.sample({"key": "k" * 247, "prefix": "ns:", "oracle": keyspace.legal("k" * 247, b"ns:", False)[0]})
        chk.sample({"key": "k" * 248, "prefix": "ns:", "oracle": keyspace.legal("k" * 248, b"ns:", False)[0]})


def _jobs(tier):
    jobs = []
    for kind in ("short", "class2", "class3", "long", "boundary", "history"):
        for as_str in (False, True):
            for prefix in keyspace.PREFIXES:
                for uni in (False, True):
                    jobs.append((kind, as_str, prefix, uni, tier))
                if kind in ("class2", "boundary"):
                    # the flag is a truth value: 1 / "yes" enable unicode keys, 0 / "" / None do not
                    for uni in ((1, 0) if tier == "quick" else (1, 0, "yes", "", None, 2)):
                        jobs.append((kind, as_str, prefix, uni, tier))
    return jobs


def run(chk):
    chk.rule = RULE
    chk.assumptions = ["keys whose prefixed form is empty are outside the statement (C02 judges what is sent for them)",
                       "str keys are well-formed Unicode (no lone surrogates)"]
    runner.parallel(chk, _worker, _jobs(chk.tier))


def replay(detail):
    key = detail["key"] if detail["is_str"] else bytes.fromhex(detail["key"]["hex"])
    prefix = bytes.fromhex(detail["prefix_hex"])
    if detail.get("history"):
        out = []
        for label, got, want in history_cases(key, prefix, detail["unicode"]):
            print(f"    [{label}] -> {got!r}   (fresh client: {want!r})")
            if got != want:
                out.append(f"after [{label}]: {got!r}, fresh client {want!r}")
        return out
    tmp = runner.Check(PROPERTY, LEVEL, "quick", 0)
    judge(tmp, key, prefix, detail["unicode"], True)
    print("    oracle:", keyspace.legal(key, prefix, detail["unicode"]))
    for v in verdicts(key, prefix, detail["unicode"], True):
        print("   ", v)
    return [v["what"] for v in tmp.violations.values()]
