"""C12 - HashClient single-key and multi-key operations agree on where a key lives.

Bounded-exhaustive enumeration: server sets of 1..5 servers (TCP and UNIX mixed) x every
subset of an 8-key universe (str, bytes, (server_key, key) pairs) plus larger key sets x key
prefix x use_pooling; on ONE long-lived HashClient per case: set_many, get_many, gets_many, then
every single-key operation per key, then the aliasing scenario (the same item key used plain
and under a server key), then revival scenarios (a server that was evicted, or failed once,
comes back: whatever the first operation afterwards is, all operations agree on placement and
every command is sent exactly once).  Oracle from the per-server command logs of the reference servers:
each key's command arrives exactly once, at the server the independent rendezvous rule assigns
to the raw key (or to the server key of a pair).
"""

from __future__ import annotations

import itertools

from pymemcache.client.hash import HashClient

from vmc import runner, stacks
from vmc.ref.placement import rendezvous

PROPERTY = "C12"
LEVEL = "exploration"
RULE = (
    "cases = server set (1..5, TCP+UNIX) x key set (all 256 subsets of an 8-key universe; prefix-closed sets of "
    "10/25/50 generated keys) x prefix {none, p:} x use_pooling; per case a fixed script of multi-key and single-key "
    "operations on one long-lived HashClient; non-trivial = >=2 servers and >=2 keys; distinct = distinct (server set, "
    "key set, prefix, pooling)"
)

SERVER_SETS = [
    [("h1", 11211)],
    [("h1", 11211), ("h2", 11211)],
    [("h1", 11211), "/var/run/m1.sock", ("h3", 11212)],
    [("h1", 11211), ("h2", 11211), ("h3", 11212), "/tmp/m2.sock"],
    [("h1", 11211), "/var/run/m1.sock", ("h3", 11212), ("10.0.0.4", 11211), "/tmp/m2.sock"],
    # the same kind of set given in the string spellings HashClient accepts
    ["h1", "unix:/var/run/m1.sock", "[fd00::2]:11212", "h4:11299"],
]


def canonical(s):
    """(host, port) tuple or unix path a server spec stands for (independent of pymemcache)."""
    if isinstance(s, tuple):
        return s
    if s.startswith("unix:"):
        return s[5:]
    if s.startswith("/"):
        return s
    if s.startswith("["):
        host, _, rest = s[1:].partition("]")
        return (host, int(rest[1:]) if rest.startswith(":") else 11211)
    if ":" in s:
        host, _, port = s.rpartition(":")
        return (host, int(port))
    return (s, 11211)
UNIVERSE = ["k1", "k2", b"k3", b"k4", ("sk1", "p1"), ("sk2", b"p2"), "user:77", ("k2x", "p3")]


def name_of(s):
    s = canonical(s)
    return "%s:%s" % s if isinstance(s, tuple) else s


def addr_of(s):
    s = canonical(s)
    return ("tcp", s[0], s[1]) if isinstance(s, tuple) else ("unix", s)


def inner(k):
    return k[1] if isinstance(k, tuple) else k


def route_key(k):
    return k[0] if isinstance(k, tuple) else k


def wire(k, prefix):
    i = inner(k)
    return prefix + (i.encode() if isinstance(i, str) else i)


def value_of(k):
    i = inner(k)
    return b"V" + (i.encode() if isinstance(i, str) else i)


class World:
    def __init__(self, servers, prefix, pooling):
        self.servers = servers
        self.names = [name_of(s) for s in servers]
        self.net = stacks.new_net(None, servers=())
        self.srv = {}
        for s in servers:
            c = canonical(s)
            if isinstance(c, tuple):
                self.srv[name_of(s)] = self.net.add_server(c[0], c[1])
            else:
                self.srv[name_of(s)] = self.net.add_server(c)
        self.prefix = prefix
        self.hc = HashClient(servers, socket_module=self.net.module(), key_prefix=prefix, use_pooling=pooling,
                             default_noreply=False, max_pool_size=2 if pooling else None)
        self.ncall = 0

    def call(self, name, *args, **kw):
        self.ncall += 1
        self.net.call = self.ncall
        try:
            return ("ret", getattr(self.hc, name)(*args, **kw))
        except Exception as e:
            return ("exc", e)

    def seen(self, verb=None):
        """{server name: [wire keys of the commands of the current call]}"""
        out = {}
        for nm, srv in self.srv.items():
            ks = []
            for call, cid, cmd, outcome in srv.log:
                if call == self.ncall and hasattr(cmd, "keys") and (verb is None or cmd.verb in verb):
                    ks += list(cmd.keys)
            if ks:
                out[nm] = ks
        return out

    def expect(self, keys):
        out = {}
        for k in keys:
            nm = rendezvous(self.names, route_key(k))
            out.setdefault(nm, []).append(wire(k, self.prefix))
        return out


def check_routing(w, what, keys, problems, verb=None, same_item_once=False):
    got = w.seen(verb)
    want = w.expect(keys)
    if same_item_once:
        # entries with the same wire key on the same server are one item: once or twice are both fine
        got = {n: set(v) for n, v in got.items()}
        want = {n: set(v) for n, v in want.items()}
    g = {n: sorted(v) for n, v in got.items()}
    e = {n: sorted(v) for n, v in want.items()}
    if g != e:
        kind = "routing"
        for n in set(g) | set(e):
            gv, ev = g.get(n, []), e.get(n, [])
            if len(gv) != len(set(gv)):
                kind = "key-sent-twice"
            elif set(gv) - set(ev):
                kind = "key-at-wrong-server"
            elif set(ev) - set(gv) and kind == "routing":
                kind = "key-not-sent"
        problems.append((f"{kind}|{what}", f"{what}: servers received {g}, the rule assigns {e}"))


def run_case(servers, keys, prefix, pooling):
    """Returns a list of (signature suffix, text)."""
    w = World(servers, prefix, pooling)
    P = []
    keys = list(keys)
    inner_keys = [inner(k) for k in keys]
    # 1. set_many
    r = w.call("set_many", {k: value_of(k) for k in keys})
    if r != ("ret", []):
        P.append(("set_many-result", f"set_many({keys}) returned {r!r}, expected no failed keys"))
    if keys:
        check_routing(w, "set_many", keys, P)
    # 2. get_many / gets_many
    r = w.call("get_many", keys)
    want = {inner(k): value_of(k) for k in keys}
    if r != ("ret", want):
        P.append(("get_many-result", f"get_many({keys}) after set_many returned {r!r}, expected {want!r} keyed by the caller's inner keys"))
    if keys:
        check_routing(w, "get_many", keys, P)
    # the same keys handed over as a tuple (a 2-tuple of plain keys is NOT a (server_key, key) pair)
    r = w.call("get_many", tuple(keys))
    if r != ("ret", want):
        P.append(("get_many-tuple", f"get_many(tuple {tuple(keys)!r}) returned {r!r}, the list form returns {want!r}"))
    if keys:
        check_routing(w, "get_many-tuple", keys, P)
    r = w.call("gets_many", keys)
    if r[0] != "ret" or {k: v[0] for k, v in r[1].items()} != want:
        P.append(("gets_many-result", f"gets_many({keys}) returned {r!r}"))
    if keys:
        check_routing(w, "gets_many", keys, P)
    # 3. single-key operations find what the multi-key call wrote, and go to the same server
    per_key = {}
    for k in keys:
        r = w.call("get", k)
        per_key[inner(k)] = r[1] if r[0] == "ret" else r
        if r != ("ret", value_of(k)):
            P.append(("get-after-set_many", f"get({k!r}) after set_many returned {r!r}"))
        check_routing(w, "get", [k], P)
        r = w.call("gets", k)
        if r[0] != "ret" or not isinstance(r[1], tuple) or r[1][0] != value_of(k):
            P.append(("gets-after-set_many", f"gets({k!r}) after set_many returned {r!r}"))
        check_routing(w, "gets", [k], P)
        r = w.call("touch", k, 100, noreply=False)
        if r != ("ret", True):
            P.append(("touch-after-set_many", f"touch({k!r}) after set_many returned {r!r}"))
        check_routing(w, "touch", [k], P)
    if per_key != want:
        P.append(("get_many-vs-gets", f"get_many({keys}) = {want!r} but the per-key gets give {per_key!r}"))
    # 4. single-key writes are found by multi-key reads
    for k in keys[:3]:
        r = w.call("set", k, b"7", noreply=False)
        check_routing(w, "set", [k], P)
        r = w.call("incr", k, 1, noreply=False)
        if r != ("ret", 8):
            P.append(("incr-after-set", f"incr({k!r}) after set returned {r!r}"))
        check_routing(w, "incr", [k], P)
        r = w.call("get_many", [k])
        if r != ("ret", {inner(k): b"8"}):
            P.append(("get_many-after-set", f"get_many([{k!r}]) after set/incr returned {r!r}"))
        r = w.call("delete", k, noreply=False)
        if r != ("ret", True):
            P.append(("delete-after-set", f"delete({k!r}) after set returned {r!r}"))
        check_routing(w, "delete", [k], P)
        r = w.call("get", k)
        if r != ("ret", None):
            P.append(("get-after-delete", f"get({k!r}) after delete returned {r!r}"))
    # 4b. values that are falsy or None are values like any other: every entry of a set_many is sent
    odd = {k: v for k, v in zip(keys, itertools.cycle([None, b"", 0, False, "", b"v"]))}
    r = w.call("set_many", odd)
    if r != ("ret", []):
        P.append(("set_many-odd-values-result", f"set_many({odd}) returned {r!r}, expected no failed keys"))
    if keys:
        check_routing(w, "set_many-odd-values", keys, P)
    # 4c. a multi-get of ONE key is a multi-get: it finds what get finds, also when the value is empty
    for k in keys[:4]:
        r1 = w.call("get", k)
        r2 = w.call("get_many", [k])
        check_routing(w, "get_many-single", [k], P)
        if r1[0] == "ret" and r1[1] is not None and r2 != ("ret", {inner(k): r1[1]}):
            P.append(("get_many-single-differs-from-get", f"get({k!r}) returns {r1[1]!r} but get_many([{k!r}]) returns {r2!r}"))
    # 4d. delete_many over a one-shot iterable reaches every key's server too
    if keys:
        w.call("set_many", {k: value_of(k) for k in keys})
        r = w.call("delete_many", (k for k in keys), noreply=False)
        check_routing(w, "delete_many-generator", keys, P)
        w.call("set_many", {k: value_of(k) for k in keys})
    # 4e. a multi-key call refused for an illegal key leaves nothing behind: the next call of the same kind
    #     sends its own keys, each once, and nothing else
    if keys:
        k0 = keys[0]
        bad = "bad key"
        r = w.call("set_many", {**{k: b"stale" for k in keys}, bad: b"x"})
        if r[0] != "exc":
            P.append(("set_many-illegal-key-accepted", f"set_many with the key {bad!r} returned {r!r}"))
        r = w.call("set_many", {k0: value_of(k0)})
        check_routing(w, "set_many-after-refused-set_many", [k0], P)
        r = w.call("get_many", list(keys) + [bad])
        r = w.call("get_many", [k0])
        check_routing(w, "get_many-after-refused-get_many", [k0], P)
        if r != ("ret", {inner(k0): value_of(k0)}):
            P.append(("get-after-refused-set_many", f"get_many([{k0!r}]) after a refused set_many and set_many({{{k0!r}: ...}}) returned {r!r}"))
        r = w.call("delete_many", list(keys) + [bad], noreply=False)
        r = w.call("delete_many", [k0], noreply=False)
        check_routing(w, "delete_many-after-refused-delete_many", [k0], P)
        w.call("set_many", {k: value_of(k) for k in keys})
    # 5. delete_many reaches every key's server
    r = w.call("delete_many", keys, noreply=False)
    if keys:
        check_routing(w, "delete_many", keys, P)
    r = w.call("get_many", keys)
    if r != ("ret", {}):
        P.append(("get_many-after-delete_many", f"get_many({keys}) after delete_many returned {r!r}"))
    return P


def run_alias(servers, prefix, pooling, order):
    """The same item key used plain and under a server key, on one long-lived client."""
    w = World(servers, prefix, pooling)
    P = []
    names = w.names
    # a server key that lives elsewhere than the plain key (when there are >= 2 servers)
    sk = next((f"sk{i}" for i in range(50) if rendezvous(names, f"sk{i}") != rendezvous(names, "k1")), "sk0")
    plain, pair = "k1", (sk, "k1")
    steps = [("set", plain, b"plain"), ("set", pair, b"pinned")]
    if order:
        steps.reverse()
    for name, k, v in steps:
        w.call(name, k, v, noreply=False)
        check_routing(w, f"alias-{name}", [k], P)
    for k in (plain, pair, plain, pair):
        r = w.call("get", k)
        check_routing(w, "alias-get", [k], P)
    r = w.call("get_many", [pair])
    check_routing(w, "alias-get_many", [pair], P)
    r = w.call("get_many", [plain])
    check_routing(w, "alias-get_many", [plain], P)
    r = w.call("set_many", {pair: b"x"})
    check_routing(w, "alias-set_many", [pair], P)
    r = w.call("set_many", {plain: b"y"})
    check_routing(w, "alias-set_many", [plain], P)
    # one multi-key call naming the same item key under different server keys (per-tenant sharding), and
    # plain + pinned together: every entry is its own placement and is sent to its own server
    sk2 = next((f"tk{i}" for i in range(50) if rendezvous(names, f"tk{i}") == rendezvous(names, "k1")), "tk0")
    for group in ([pair, (sk2, "k1")], [(sk2, "k1"), pair], [plain, pair], [pair, plain], [pair, (sk2, "k1"), ("sk9", "k2")]):
        for op in ("get_many", "gets_many"):
            w.call(op, list(group))
            check_routing(w, f"alias-{op}-same-item-key", group, P, same_item_once=True)
        w.call("delete_many", list(group), noreply=False)
        check_routing(w, "alias-delete_many-same-item-key", group, P, same_item_once=True)
        w.call("set_many", {k: b"z" for k in group})
        check_routing(w, "alias-set_many-same-item-key", group, P, same_item_once=True)
    return P


def run_revival(servers, prefix, pooling, first_op, how, vi=-1, outage_traffic=False):
    """A server comes back: `how`='dead' - it failed (retry_attempts=0: evicted at once), recovered, and
    dead_timeout elapsed; `how`='failed' - it failed once (retry_attempts=2), recovered, retry_timeout elapsed.
    The first operation afterwards is `first_op`; every operation on the same key must then agree."""
    w = World(servers, prefix, pooling)
    w.hc.retry_attempts = 0 if how == "dead" else 2
    w.hc.retry_timeout, w.hc.dead_timeout = 1, 6
    P = []
    names = w.names
    victim = servers[vi]
    vaddr = addr_of(victim)
    keys = []
    i = 0
    while len(keys) < 3:  # keys owned by the victim in the full rotation
        k = f"rk{i}"
        i += 1
        if rendezvous(names, k) == name_of(victim):
            keys.append(k)
    other = next(f"ok{j}" for j in range(99) if rendezvous(names, f"ok{j}") != name_of(victim))
    w.net.failing[vaddr] = "refused"
    r = w.call("get", keys[0])  # the failure is noticed
    if outage_traffic:
        # the victim's keys are asked for while it is away (served elsewhere or answered as misses) ...
        w.call("get", other)
        w.call("get", keys[0])
    w.net.failing.pop(vaddr)
    w.net.clock.advance(7 if how == "dead" else 2)
    ks = keys + [other]  # ... and the key asked for last is the one asked for first when it is back
    if first_op == "set_many":
        w.call("set_many", {k: value_of(k) for k in ks})
        check_routing(w, f"revival-{how}-set_many", ks, P)
    elif first_op == "get_many":
        w.call("get_many", ks)
        check_routing(w, f"revival-{how}-get_many", ks, P)
        w.call("set_many", {k: value_of(k) for k in ks})
        check_routing(w, f"revival-{how}-set_many", ks, P)
    else:
        w.call(first_op, keys[0], *([b"v0"] if first_op == "set" else []), **({"noreply": False} if first_op in ("set", "delete") else {}))
        check_routing(w, f"revival-{how}-{first_op}", [keys[0]], P)
        w.call("set_many", {k: value_of(k) for k in ks})
        check_routing(w, f"revival-{how}-set_many", ks, P)
    for k in ks:
        r = w.call("get", k)
        if r != ("ret", value_of(k)):
            P.append((f"revival-{how}-get-after-set_many", f"after {name_of(victim)} came back ({how}), first operation {first_op}: "
                      f"get({k!r}) returned {r!r} although set_many just stored it"))
        check_routing(w, f"revival-{how}-get", [k], P)
    r = w.call("get_many", ks)
    if r != ("ret", {k: value_of(k) for k in ks}):
        P.append((f"revival-{how}-get_many-after-set_many", f"after {name_of(victim)} came back ({how}), first operation {first_op}: "
                  f"get_many returned {r!r}"))
    check_routing(w, f"revival-{how}-get_many", ks, P)
    r = w.call("incr", keys[1], 1, noreply=False)
    check_routing(w, f"revival-{how}-incr", [keys[1]], P)
    return P


def run_outage(servers, prefix, pooling, how, vi=-1):
    """One server is away (evicted: `how`='dead'; inside its retry window: 'failed') and stays away.  Multi-key
    reads must go on equalling the per-key gets - call after call on the long-lived client, for any subset of
    the keys, and on another HashClient of the same process."""
    w = World(servers, prefix, pooling)
    w.hc.retry_attempts = 0 if how == "dead" else 2
    w.hc.retry_timeout, w.hc.dead_timeout = 5, 60
    P = []
    names = w.names
    victim = servers[vi]
    keys, i = [], 0
    while len(keys) < 2:
        k = f"rk{i}"
        i += 1
        if rendezvous(names, k) == name_of(victim):
            keys.append(k)
    others = [f"ok{j}" for j in range(99) if rendezvous(names, f"ok{j}") != name_of(victim)][:2]
    ks = keys + others  # the absent server's keys come first
    w.call("set_many", {k: value_of(k) for k in ks})
    w.net.failing[addr_of(victim)] = "refused"
    w.call("get", keys[0])  # the failure is noticed

    def compare(label, subset):
        r = w.call("get_many", list(subset))
        per = {}
        for k in subset:
            g = w.call("get", k)
            if g[0] == "ret" and g[1] is not None:
                per[k] = g[1]
        if r != ("ret", per):
            P.append((f"outage-{how}-get_many-differs-from-gets|{label}",
                      f"{name_of(victim)} is away ({how}); {label}: get_many({list(subset)}) returned {r!r}, the per-key gets "
                      f"give {per!r}"))

    compare("first multi-key read", ks)
    compare("second multi-key read", ks)
    w.call("delete", others[0], noreply=False)
    compare("after deleting a key of a healthy server", ks)
    compare("only keys of the absent server", keys)
    compare("keys in the opposite order", list(reversed(ks)))
    w2 = World(servers, prefix, pooling)  # another client, other (empty) servers: nothing to be found
    r = w2.call("get_many", list(ks))
    if r != ("ret", {}):
        P.append((f"outage-{how}-other-client-finds-keys", f"a second HashClient over empty servers: get_many({ks}) returned {r!r}"))
    return P


def run_eviction(servers, prefix, pooling, ra, ignore_exc):
    """A server goes down and stays down; multi-key writes with (server_key, key) pairs are the calls that
    retry it and finally evict it.  Whatever stage the failover is in, a command only ever reaches a server
    that the rule assigns the entry's routing key to - under the full rotation or under the rotation
    without the victim - never one chosen by the inner key."""
    w = World(servers, prefix, pooling)
    w.hc.retry_attempts, w.hc.retry_timeout, w.hc.dead_timeout, w.hc.ignore_exc = ra, 1, 60, ignore_exc
    P = []
    names = w.names
    victim = servers[-1]
    vname = name_of(victim)
    rest = [n for n in names if n != vname]
    pairs = []
    i = 0
    while len(pairs) < 4 and i < 400:  # pairs pinned to the victim whose inner key would live elsewhere than their server key
        sk, ik = f"vk{i}", f"in{i}"
        i += 1
        if rendezvous(names, sk) == vname and rendezvous(rest, sk) != rendezvous(rest, ik):
            pairs.append((sk, ik))
    plain = next(f"pl{j}" for j in range(99) if rendezvous(names, f"pl{j}") != vname)
    ks = pairs + [plain]
    allowed = {}
    for k in ks:
        for rot in (names, rest):
            allowed.setdefault(rendezvous(rot, route_key(k)), set()).add(wire(k, prefix))
    w.net.failing[addr_of(victim)] = "refused"
    steps = [("get", (pairs[0],), {})] + [("set_many", ({k: value_of(k) for k in ks},), {"noreply": False})] * (ra + 3) + \
            [("get_many", (ks,), {}), ("delete_many", (ks,), {"noreply": False})]
    for n, (name, args, kw) in enumerate(steps):
        w.call(name, *args, **kw)
        for srv, got in w.seen().items():
            stray = [k for k in got if k not in allowed.get(srv, ())]
            if stray:
                P.append((f"eviction-key-at-wrong-server|{name}", f"one server down for good (retry_attempts={ra}, ignore_exc={ignore_exc}), "
                          f"call {n + 1} {name}: {srv} received {stray}; the rule (by server key, with or without {vname}) allows it {sorted(allowed.get(srv, ()))}"))
        w.net.clock.advance(2)
    return P


def big_sets():
    out = []
    for n in (10, 25, 50):
        ks = []
        for i in range(n):
            ks.append([f"key{i}", f"key{i}".encode(), (f"s{i % 7}", f"item{i}")][i % 3])
        out.append(ks)
    return out


def _worker(job, chk):
    si, prefix, pooling, tier = job
    servers = SERVER_SETS[si]
    uni = UNIVERSE if tier == "quick" else UNIVERSE + [b"bin\xff\x01", ("sk1", b"p9"), "k" * 200]
    sets = [tuple(k for j, k in enumerate(uni) if m >> j & 1) for m in range(1 << len(uni))]
    sets += [tuple(b) for b in big_sets()]
    # an empty server key is a server key like any other
    sets += [(("", "p4"),), ((b"", b"p5"), "k1"), (("", "p4"), ("sk1", "p1"), (b"", b"p5"), "k2"), (("", "q1"), ("", "q2"), ("", b"q3"))]
    for keys in sets:
        P = run_case(servers, keys, prefix, pooling)
        chk.add()
        if len(servers) >= 2 and len(keys) >= 2:
            chk.outcome((si, prefix, pooling, tuple(map(repr, keys)) if len(keys) <= 8 else len(keys)))
        for sig, text in P:
            chk.violation(f"{sig}|pooling={pooling}",
                          f"HashClient({[name_of(s) for s in servers]}, key_prefix={prefix!r}, use_pooling={pooling}): {text}",
                          {"servers": si, "prefix": prefix.decode(), "pooling": pooling, "keys": [repr(k) for k in keys], "alias": None})
    for order in (False, True):
        P = run_alias(servers, prefix, pooling, order)
        chk.add()
        for sig, text in P:
            chk.violation(f"{sig}|pooling={pooling}",
                          f"HashClient({[name_of(s) for s in servers]}, key_prefix={prefix!r}, use_pooling={pooling}): {text}",
                          {"servers": si, "prefix": prefix.decode(), "pooling": pooling, "keys": [], "alias": order})
    if len(servers) >= 2:
        for how in ("dead", "failed"):
            for first_op in ("set_many", "get_many", "get", "set", "delete"):
                for vi in range(len(servers)):  # every server of the set (TCP or UNIX socket) is the one that comes back
                    for traffic in (False, True):
                        P = run_revival(servers, prefix, pooling, first_op, how, vi, traffic)
                        chk.add()
                        chk.outcome((si, prefix, pooling, "revival", how, first_op, vi, traffic))
                        for sig, text in P:
                            chk.violation(f"{sig}|pooling={pooling}" + ("|traffic-during-outage" if traffic else ""),
                                          f"HashClient({[name_of(s) for s in servers]}, key_prefix={prefix!r}, use_pooling={pooling})"
                                          f"{', keys used during the outage' if traffic else ''}: {text}",
                                          {"servers": si, "prefix": prefix.decode(), "pooling": pooling, "keys": [], "alias": None,
                                           "revival": [first_op, how, vi, traffic]})
            for how in ("dead", "failed"):
                for vi in range(len(servers)):
                    P = run_outage(servers, prefix, pooling, how, vi)
                    chk.add()
                    chk.outcome((si, prefix, pooling, "outage", how, vi))
                    for sig, text in P:
                        chk.violation(f"{sig}|pooling={pooling}",
                                      f"HashClient({[name_of(s) for s in servers]}, key_prefix={prefix!r}, use_pooling={pooling}): {text}",
                                      {"servers": si, "prefix": prefix.decode(), "pooling": pooling, "keys": [], "alias": None,
                                       "outage": [how, vi]})
    if len(servers) >= 3:
        for ra in (0, 1, 2):
            for ie in (False, True):
                P = run_eviction(servers, prefix, pooling, ra, ie)
                chk.add()
                chk.outcome((si, prefix, pooling, "eviction", ra, ie))
                for sig, text in P:
                    chk.violation(f"{sig}|pooling={pooling}",
                                  f"HashClient({[name_of(s) for s in servers]}, key_prefix={prefix!r}, use_pooling={pooling}): {text}",
                                  {"servers": si, "prefix": prefix.decode(), "pooling": pooling, "keys": [], "alias": None,
                                   "eviction": [ra, ie]})
    if si == 2 and not pooling and prefix:
        chk.sample({"servers": [name_of(s) for s in servers], "prefix": prefix.decode(), "keys": [repr(k) for k in UNIVERSE[:5]],
                    "expected_placement": {repr(k): rendezvous([name_of(s) for s in servers], route_key(k)) for k in UNIVERSE[:5]}})


def run(chk):
    chk.rule = RULE
    chk.assumptions = ["reference placement rule in vmc/ref/placement.py; a str key and the bytes key of the same text are different routing keys (the rule formats the raw key)",
                       "a key set never contains a plain key and a pair with the same inner key in one multi-key call (the aliasing scenario covers that on one client, call by call)"]
    jobs = [(si, prefix, pooling, chk.tier) for si in range(len(SERVER_SETS)) for prefix in (b"", b"p:") for pooling in (False, True)]
    runner.parallel(chk, _worker, jobs)


def replay(detail):
    servers = SERVER_SETS[detail["servers"]]
    prefix = detail["prefix"].encode()
    if detail.get("eviction"):
        P = run_eviction(servers, detail["prefix"].encode(), detail["pooling"], *detail["eviction"])
        return [t for _, t in P]
    if detail.get("outage"):
        return [t for _, t in run_outage(servers, prefix, detail["pooling"], *detail["outage"])]
    if detail.get("revival"):
        P = run_revival(servers, prefix, detail["pooling"], *detail["revival"])
    elif detail["alias"] is not None:
        P = run_alias(servers, prefix, detail["pooling"], detail["alias"])
    else:
        keys = [eval(k) for k in detail["keys"]]
        P = run_case(servers, keys, prefix, detail["pooling"])
    return [t for s, t in P]
