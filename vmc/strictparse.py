"""A strict, server-grade parser for the memcached text protocol (client -> server).

Independent of pymemcache.  Stricter than memcached itself where memcached is
lenient (it demands exactly one space between tokens and CR LF line ends), so
that anything a lenient server might read differently is flagged.

parse_one(buf, pos) -> (item, newpos) ; item is a Cmd, a Malformed, or None when
the buffer does not yet hold a complete command.
"""

from __future__ import annotations

KEY_FORBIDDEN = frozenset(b" \t\r\n\x0b\x0c\x00")
MAX_KEY = 250
U32 = 2**32 - 1
U64 = 2**64 - 1
I64_MIN, I64_MAX = -(2**63), 2**63 - 1

STORE_VERBS = (b"set", b"add", b"replace", b"append", b"prepend")


class Cmd:
    __slots__ = (
        "verb", "keys", "flags", "exptime", "nbytes", "data", "cas", "noreply",
        "delta", "delay", "args", "raw",
    )

    def __init__(self, verb, **kw):
        self.verb = verb
        self.keys = kw.get("keys", [])
        self.flags = kw.get("flags")
        self.exptime = kw.get("exptime")
        self.nbytes = kw.get("nbytes")
        self.data = kw.get("data")
        self.cas = kw.get("cas")
        self.noreply = kw.get("noreply", False)
        self.delta = kw.get("delta")
        self.delay = kw.get("delay")
        self.args = kw.get("args", [])
        self.raw = kw.get("raw", b"")

    def astuple(self):
        return (
            self.verb, tuple(self.keys), self.flags, self.exptime, self.nbytes,
            self.data, self.cas, self.noreply, self.delta, self.delay, tuple(self.args),
        )

    def __eq__(self, other):
        return isinstance(other, Cmd) and self.astuple() == other.astuple()

    def __hash__(self):
        return hash(self.astuple())

    def __repr__(self):
        parts = [self.verb.decode("latin1")]
        if self.keys:
            parts.append("keys=%r" % (self.keys,))
        for n in ("flags", "exptime", "nbytes", "cas", "delta", "delay"):
            v = getattr(self, n)
            if v is not None:
                parts.append(f"{n}={v}")
        if self.data is not None:
            d = self.data if len(self.data) <= 40 else self.data[:37] + b"..."
            parts.append("data=%r" % d)
        if self.args:
            parts.append("args=%r" % (self.args,))
        if self.noreply:
            parts.append("noreply")
        return "<" + " ".join(parts) + ">"


class Malformed:
    __slots__ = ("raw", "reason")

    def __init__(self, raw, reason):
        self.raw = raw
        self.reason = reason

    def __repr__(self):
        r = self.raw if len(self.raw) <= 60 else self.raw[:57] + b"..."
        return f"<MALFORMED {self.reason}: {r!r}>"


def key_ok(k: bytes) -> bool:
    return 1 <= len(k) <= MAX_KEY and not (KEY_FORBIDDEN & set(k))


def _udec(tok: bytes, hi: int):
    if not tok or not tok.isdigit() or not tok.isascii():
        return None
    v = int(tok)
    return v if v <= hi else None


def _sdec(tok: bytes):
    t = tok[1:] if tok[:1] == b"-" else tok
    if not t or not t.isdigit() or not t.isascii():
        return None
    v = int(tok)
    return v if I64_MIN <= v <= I64_MAX else None


def parse_one(buf: bytes, pos: int = 0):
    nl = buf.find(b"\n", pos)
    if nl == -1:
        return None, pos
    if nl == pos or buf[nl - 1 : nl] != b"\r":
        return Malformed(buf[pos : nl + 1], "line not terminated by CR LF"), nl + 1
    line = buf[pos : nl - 1]
    end = nl + 1
    raw = buf[pos:end]
    if b"\r" in line:
        return Malformed(raw, "stray CR inside command line"), end
    toks = line.split(b" ")
    if any(t == b"" for t in toks):
        return Malformed(raw, "empty token (leading/trailing/double space or empty line)"), end
    verb = toks[0]

    def bad(reason):
        return Malformed(raw, reason), end

    noreply = False

    def take_noreply(maxlen):
        nonlocal toks, noreply
        if len(toks) == maxlen:
            if toks[-1] != b"noreply":
                return False
            noreply = True
            toks = toks[:-1]
        return True

    if verb in STORE_VERBS or verb == b"cas":
        n = 6 if verb == b"cas" else 5
        if len(toks) not in (n, n + 1):
            return bad("wrong number of tokens for storage command")
        if not take_noreply(n + 1):
            return bad("trailing token is not 'noreply'")
        key = toks[1]
        if not key_ok(key):
            return bad("illegal key")
        flags = _udec(toks[2], U32)
        exptime = _sdec(toks[3])
        nbytes = _udec(toks[4], 2**31)
        if flags is None:
            return bad("flags is not a decimal 32-bit unsigned integer")
        if exptime is None:
            return bad("exptime is not a decimal signed 64-bit integer")
        if nbytes is None:
            return bad("bytes is not a decimal length")
        cas = None
        if verb == b"cas":
            cas = _udec(toks[5], U64)
            if cas is None:
                return bad("cas unique is not a decimal 64-bit unsigned integer")
        if len(buf) < end + nbytes + 2:
            return None, pos
        data = buf[end : end + nbytes]
        if buf[end + nbytes : end + nbytes + 2] != b"\r\n":
            return Malformed(raw, "data block not followed by CR LF (bad data chunk)"), end
        end2 = end + nbytes + 2
        return (
            Cmd(verb, keys=[key], flags=flags, exptime=exptime, nbytes=nbytes, data=data,
                cas=cas, noreply=noreply, raw=buf[pos:end2]),
            end2,
        )
    if verb in (b"get", b"gets"):
        keys = toks[1:]
        if not keys:
            return bad("no key")
        if not all(key_ok(k) for k in keys):
            return bad("illegal key")
        return Cmd(verb, keys=keys, raw=raw), end
    if verb in (b"gat", b"gats"):
        if len(toks) < 3:
            return bad("gat needs exptime and key")
        exptime = _sdec(toks[1])
        if exptime is None:
            return bad("exptime is not a decimal signed 64-bit integer")
        keys = toks[2:]
        if not all(key_ok(k) for k in keys):
            return bad("illegal key")
        return Cmd(verb, keys=keys, exptime=exptime, raw=raw), end
    if verb == b"delete":
        if len(toks) not in (2, 3) or not take_noreply(3):
            return bad("bad delete")
        if not key_ok(toks[1]):
            return bad("illegal key")
        return Cmd(verb, keys=[toks[1]], noreply=noreply, raw=raw), end
    if verb in (b"incr", b"decr"):
        if len(toks) not in (3, 4) or not take_noreply(4):
            return bad("bad incr/decr")
        if not key_ok(toks[1]):
            return bad("illegal key")
        delta = _udec(toks[2], U64)
        if delta is None:
            return bad("delta is not a decimal 64-bit unsigned integer")
        return Cmd(verb, keys=[toks[1]], delta=delta, noreply=noreply, raw=raw), end
    if verb == b"touch":
        if len(toks) not in (3, 4) or not take_noreply(4):
            return bad("bad touch")
        if not key_ok(toks[1]):
            return bad("illegal key")
        exptime = _sdec(toks[2])
        if exptime is None:
            return bad("exptime is not a decimal signed 64-bit integer")
        return Cmd(verb, keys=[toks[1]], exptime=exptime, noreply=noreply, raw=raw), end
    if verb == b"flush_all":
        rest = toks[1:]
        if rest and rest[-1] == b"noreply":
            noreply = True
            rest = rest[:-1]
        if len(rest) > 1:
            return bad("bad flush_all")
        delay = 0
        if rest:
            delay = _udec(rest[0], I64_MAX)
            if delay is None:
                return bad("delay is not a non-negative decimal integer")
        return Cmd(verb, delay=delay, noreply=noreply, raw=raw), end
    if verb in (b"version", b"quit"):
        if len(toks) != 1:
            return bad("unexpected argument")
        return Cmd(verb, raw=raw), end
    if verb == b"shutdown":
        if toks[1:] not in ([], [b"graceful"]):
            return bad("bad shutdown")
        return Cmd(verb, args=toks[1:], raw=raw), end
    if verb == b"stats":
        return Cmd(verb, args=toks[1:], raw=raw), end
    if verb in (b"cache_memlimit", b"verbosity"):
        if len(toks) not in (2, 3) or not take_noreply(3):
            return bad("bad " + verb.decode())
        v = _udec(toks[1], U64)
        if v is None:
            return bad("argument is not a decimal integer")
        return Cmd(verb, delta=v, noreply=noreply, raw=raw), end
    if verb == b"config":
        if toks[1:] != [b"get", b"cluster"]:
            return bad("unsupported config command")
        return Cmd(verb, args=toks[1:], raw=raw), end
    return bad("unknown command")


def parse_all(buf: bytes):
    """Parse a complete byte stream. Returns (items, residue)."""
    items = []
    pos = 0
    while pos < len(buf):
        item, npos = parse_one(buf, pos)
        if item is None:
            break
        items.append(item)
        pos = npos
    return items, buf[pos:]
