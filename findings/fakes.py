"""Tiny scripted socket module for the regression tests."""
import socket as _real


class Sock:
    def __init__(self, mod, script):
        self.mod = mod
        self.script = list(script)  # bytes to return from recv, or an exception (class or instance) to raise
        self.sent = b""
        self.closed = 0
        self.timeouts = []

    def setsockopt(self, *a):
        pass

    def settimeout(self, t):
        self.timeouts.append(t)

    def connect(self, addr):
        if self.mod.refuse:
            raise ConnectionRefusedError(111, "Connection refused")
        self.addr = addr

    def sendall(self, data):
        if self.mod.send_error is not None:
            raise self.mod.send_error
        self.sent += bytes(data)

    def recv(self, n):
        if not self.script:
            raise _real.timeout("timed out (script exhausted)")
        x = self.script.pop(0)
        if isinstance(x, BaseException) or (isinstance(x, type) and issubclass(x, BaseException)):
            raise x
        if len(x) > n:
            self.script.insert(0, x[n:])
            x = x[:n]
        return x

    def shutdown(self, how):
        pass

    def close(self):
        self.closed += 1


class Module:
    """socket_module stand-in: every socket() call returns a Sock with the next script."""
    AF_UNIX, AF_INET, AF_INET6, SOCK_STREAM = _real.AF_UNIX, _real.AF_INET, _real.AF_INET6, _real.SOCK_STREAM
    AF_UNSPEC = _real.AF_UNSPEC
    IPPROTO_TCP, TCP_NODELAY, SOL_SOCKET, SO_KEEPALIVE = _real.IPPROTO_TCP, _real.TCP_NODELAY, _real.SOL_SOCKET, _real.SO_KEEPALIVE
    TCP_KEEPIDLE, TCP_KEEPINTVL, TCP_KEEPCNT = 4, 5, 6
    error, timeout = _real.error, _real.timeout

    def __init__(self, *scripts, addrinfo=None, bad_families=()):
        self.scripts = list(scripts)
        self.socks = []
        self.refuse = False
        self.send_error = None
        self.addrinfo = addrinfo
        self.bad_families = bad_families

    def socket(self, family=None, type=None, proto=0):
        if family in self.bad_families:
            raise OSError(97, "Address family not supported by protocol")
        s = Sock(self, self.scripts.pop(0) if self.scripts else [])
        s.family = family
        self.socks.append(s)
        return s

    def getaddrinfo(self, host, port, *a, **k):
        if self.addrinfo is not None:
            return self.addrinfo
        return [(_real.AF_INET, _real.SOCK_STREAM, 6, "", (host, port))]
