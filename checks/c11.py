"""C11 - key placement is a pure, order-independent, minimally disruptive function.

(a) every node set of 1..8 names from a fixed universe (which contains a pair of names whose
    murmur3 scores tie for every key) x every insertion order for sets of <= 5 (thorough 6)
    nodes: RendezvousHash.get_node over a structured key corpus is identical across orders
    and equals the independent reference rule (vmc/ref/placement.py);
(b) E2: breadth-first search over add/remove histories on 5 nodes (canonical state = node
    set): placement in a state is the same however it was reached; removal moves only the
    removed node's keys, addition moves keys only onto the new node;
(c) the same with hash functions that force ties;
(d) HashClient: the server actually contacted equals the rule; equivalent spellings of a
    server address give identical placement;
(e) placement digests recomputed in sub-processes under different PYTHONHASHSEED values;
(f) spread: every node owns between 0.5x and 1.5x its fair share.
"""

from __future__ import annotations

import collections
import hashlib
import itertools
import os
import subprocess
import sys

from pymemcache.client.hash import HashClient
from pymemcache.client.rendezvous import RendezvousHash

from vmc import runner, stacks
from vmc.ref.placement import rendezvous

PROPERTY = "C11"
LEVEL = "model_checking"
RULE = (
    "cases: (a) node sets x insertion orders x keys; (b) BFS over add/remove histories on 5 nodes, states = node "
    "sets, every transition re-evaluates placement of the whole corpus on the real RendezvousHash; (c) tie-forcing "
    "hash functions; (d) HashClient routing and address spellings over simnet; (e) sub-process digests per "
    "PYTHONHASHSEED; (f) spread. distinct_nontrivial = distinct (node set, order) pairs with >= 2 nodes + BFS "
    "transitions + spellings + seeds"
)
UNIVERSE = ["h1:11211", "h2:11211", "10.0.0.3:11211", "/var/run/mc.sock", "cache-a-ablg.internal:11211",
            "cache-b-qcn5.internal:11211", "h1:11212", "zeta:1"]
TIE_PAIR = ("cache-a-ablg.internal:11211", "cache-b-qcn5.internal:11211")


# keys that compare (and hash) equal but are different keys: the rule formats the key, '7' is not '7.0'
EQUAL_BUT_DIFFERENT = [7, 7.0, 1, True, 1.0, 0, False, 0.0, -0.0, "7", 7.5]


def corpus(n):
    keys = list(EQUAL_BUT_DIFFERENT)
    i = 0
    while len(keys) < n:
        keys += [f"key{i}", f"user:{i}:profile", str(i), f"{i:08x}", "k" * (i % 40 + 1) + str(i), f"é{i}"]
        if i % 50 == 0:
            keys += [b"bytes%d" % i, ("pair", i).__repr__()]
        i += 1
    return keys[:n]


def place_impl(nodes_in_order, keys, hashfn=None):
    r = RendezvousHash() if hashfn is None else RendezvousHash(hash_function=hashfn)
    for nd in nodes_in_order:
        r.add_node(nd)
    return [r.get_node(k) for k in keys]


def const_hash(s, seed=0):
    return 7


def parity_hash(s, seed=0):
    return len(s) % 2


def _w_sets(job, chk):
    nodeset, tier = job
    size = len(nodeset)
    K_ref = 2000 if tier == "thorough" else 600
    K_perm = 400 if tier == "thorough" else 100
    maxperm = 6 if tier == "thorough" else 5
    keys = corpus(K_ref)
    for nodes in (nodeset,):
        ref = [rendezvous(nodes, k) for k in keys]
        got = place_impl(nodes, keys)
        chk.add()
        if size >= 2:
            chk.outcome(("set", nodes))
        if got != ref:
            i = next(i for i in range(len(keys)) if got[i] != ref[i])
            tie = set(TIE_PAIR) <= set(nodes) and {got[i], ref[i]} <= set(TIE_PAIR)
            chk.violation(f"differs-from-rendezvous-rule|{'tie' if tie else 'no-tie'}",
                          f"nodes {list(nodes)}: get_node({keys[i]!r}) = {got[i]!r}, the published rule gives {ref[i]!r}",
                          {"part": "sets", "nodes": list(nodes), "key": repr(keys[i])})
        # spread (without the tie pair, whose lesser name legitimately owns nothing)
        if not (set(TIE_PAIR) <= set(nodes)) and size >= 2:
            cnt = collections.Counter(got)
            fair = len(keys) / size
            for nd in nodes:
                if not (0.5 * fair <= cnt.get(nd, 0) <= 1.5 * fair):
                    chk.violation("uneven-spread", f"nodes {list(nodes)}: {nd} owns {cnt.get(nd, 0)} of {len(keys)} keys "
                                  f"(fair share {fair:.0f})", {"part": "sets", "nodes": list(nodes), "key": None})
        if size <= maxperm:
            sub = keys[:K_perm]
            base = got[:K_perm]
            for perm in itertools.permutations(nodes):
                if perm == nodes:
                    continue
                p = place_impl(perm, sub)
                chk.add()
                chk.outcome(("perm", perm))
                if p != base:
                    i = next(i for i in range(len(sub)) if p[i] != base[i])
                    chk.violation("order-dependent", f"insertion order {list(perm)} places {sub[i]!r} on {p[i]!r}, order "
                                  f"{list(nodes)} places it on {base[i]!r}",
                                  {"part": "perm", "nodes": list(nodes), "perm": list(perm), "key": repr(sub[i])})
                    break
            # tie-forcing hash functions: the winner must be the greatest name whatever the order
            for hname, hf in (("const", const_hash), ("parity", parity_hash)):
                tk = keys[:8]
                want = [rendezvous(nodes, k, hashfn=hf) for k in tk]
                for perm in itertools.permutations(nodes):
                    p = place_impl(perm, tk, hf)
                    chk.add()
                    if p != want:
                        i = next(i for i in range(len(tk)) if p[i] != want[i])
                        chk.violation(f"tie-break|{hname}", f"hash {hname}, insertion order {list(perm)}: {tk[i]!r} -> {p[i]!r}, "
                                      f"ties must go to the greatest name {want[i]!r}",
                                      {"part": "tie", "nodes": list(perm), "hash": hname, "key": repr(tk[i])})
                        break
    if nodeset == tuple(UNIVERSE[:3]):
        chk.sample({"part": "sets", "nodes": list(UNIVERSE[:3]), "keys": [repr(k) for k in keys[:4]],
                    "placement": [str(x) for x in place_impl(UNIVERSE[:3], keys[:4])]})


ODD_NODE_SETS = [(0, 1, 2), (3, 0, 1, 2), ("", "a", "b"), (0, "", "n1")]


def _w_oddnodes(job, chk):
    """Rings used directly with node ids that are not host names: small ints (shard numbers, 0 among them)
    and the empty string.  Every insertion order gives the rule's placement and every node gets keys."""
    nodes, tier = job
    keys = corpus(600 if tier == "quick" else 2000)
    ref = [str(rendezvous(nodes, k)) for k in keys]
    for perm in itertools.permutations(nodes):
        got = [str(x) for x in place_impl(perm, keys)]
        chk.add()
        chk.outcome(("oddnodes", perm))
        if got != ref:
            i = next(i for i in range(len(keys)) if got[i] != ref[i])
            chk.violation("differs-from-rendezvous-rule|unusual-node-ids",
                          f"nodes {list(perm)!r} (in this insertion order): get_node({keys[i]!r}) = {got[i]!r}, the published rule "
                          f"gives {ref[i]!r}", {"part": "oddnodes", "nodes": [repr(x) for x in perm], "key": repr(keys[i])})
            break
    cnt = collections.Counter(ref)
    fair = len(keys) / len(nodes)
    got = collections.Counter(str(x) for x in place_impl(nodes, keys))
    for nd in nodes:
        if not (0.5 * fair <= got.get(str(nd), 0) <= 1.5 * fair):
            chk.violation("uneven-spread|unusual-node-ids", f"nodes {list(nodes)!r}: {nd!r} owns {got.get(str(nd), 0)} of {len(keys)} keys "
                          f"(fair share {fair:.0f}; the rule gives it {cnt.get(str(nd), 0)})",
                          {"part": "oddnodes", "nodes": [repr(x) for x in nodes], "key": None})


def _w_bfs(job, chk):
    """add/remove histories over 5 nodes on ONE long-lived RendezvousHash per path (replayed)."""
    tier, hname, pattern = job
    hf = {"murmur": None, "const": const_hash, "parity": parity_hash}[hname]
    # when the long-lived object is queried between membership changes: after every change, after every
    # second one (either parity), or not at all before the final lookups
    queried = {"all": lambda i: True, "even": lambda i: i % 2 == 0, "odd": lambda i: i % 2 == 1, "never": lambda i: False,
               "ctor": lambda i: True}[pattern]
    nodes = UNIVERSE[2:7]  # contains the tie pair
    keys = corpus(300 if tier == "quick" else 1000)
    max_depth = 6 if tier == "quick" else 8

    def build(hist):
        r = RendezvousHash() if hf is None else RendezvousHash(hash_function=hf)
        if pattern == "ctor":
            # the leading additions are handed to the constructor instead; and every node is added once more
            # (a no-op by contract) right before it is removed
            lead = []
            for op, nd in hist:
                if op != "+":
                    break
                lead.append(nd)
            r = RendezvousHash(nodes=list(lead)) if hf is None else RendezvousHash(nodes=list(lead), hash_function=hf)
            rest = list(hist[len(lead):])
            for j, (op, nd) in enumerate(rest):
                if op == "-":
                    r.add_node(nd)
                    r.remove_node(nd)
                else:
                    r.add_node(nd)
                if j < len(rest) - 1:
                    for k in keys[:40]:
                        r.get_node(k)
            return r
        for i, (op, nd) in enumerate(hist[:-1]):
            (r.add_node if op == "+" else r.remove_node)(nd)
            if queried(i):
                for k in keys[:40]:  # the object is queried along its life, as a client would
                    r.get_node(k)
        for op, nd in hist[-1:]:
            (r.add_node if op == "+" else r.remove_node)(nd)
        return r

    seen = {frozenset(): ((), [None] * len(keys))}
    frontier = collections.deque([()])
    transitions = 0
    while frontier:
        hist = frontier.popleft()
        if len(hist) >= max_depth:
            continue
        cur = frozenset(nd for nd in nodes if sum(1 if o == "+" else -1 for o, x in hist if x == nd) > 0)
        before = seen[cur][1]
        for nd in nodes:
            ev = ("-", nd) if nd in cur else ("+", nd)
            r = build(hist + (ev,))
            place = [r.get_node(k) for k in keys]
            nxt = cur - {nd} if nd in cur else cur | {nd}
            transitions += 1
            chk.add()
            chk.outcome(("bfs", hname, tuple(sorted(nxt)), ev))
            # against the reference rule for this node set
            ref = [rendezvous(sorted(nxt), k, hashfn=hf) for k in keys]
            if place != ref:
                i = next(i for i in range(len(keys)) if place[i] != ref[i])
                chk.violation(f"history-dependent-or-wrong|{hname}", f"after history {list(hist) + [ev]} {keys[i]!r} is on "
                              f"{place[i]!r}; the rule for the node set {sorted(nxt)} gives {ref[i]!r}",
                              {"part": "bfs", "hash": hname, "pattern": pattern, "history": [list(h) for h in hist] + [list(ev)], "key": repr(keys[i])})
            # minimal disruption against the predecessor state
            for i, k in enumerate(keys):
                if before[i] != place[i]:
                    if ev[0] == "-" and before[i] != nd:
                        chk.violation(f"removal-moves-foreign-keys|{hname}", f"removing {nd} moved {k!r} from {before[i]!r} to {place[i]!r}",
                                      {"part": "bfs", "hash": hname, "pattern": pattern, "history": [list(h) for h in hist] + [list(ev)], "key": repr(k)})
                        break
                    if ev[0] == "+" and place[i] != nd:
                        chk.violation(f"addition-moves-keys-elsewhere|{hname}", f"adding {nd} moved {k!r} from {before[i]!r} to {place[i]!r}",
                                      {"part": "bfs", "hash": hname, "pattern": pattern, "history": [list(h) for h in hist] + [list(ev)], "key": repr(k)})
                        break
            if nxt not in seen:
                seen[nxt] = (hist + (ev,), place)
            elif seen[nxt][1] != place:
                i = next(i for i in range(len(keys)) if place[i] != seen[nxt][1][i])
                chk.violation(f"history-dependent|{hname}", f"node set {sorted(nxt)} reached by {list(hist) + [ev]} places {keys[i]!r} on "
                              f"{place[i]!r}, reached by {list(seen[nxt][0])} on {seen[nxt][1][i]!r}",
                              {"part": "bfs", "hash": hname, "pattern": pattern, "history": [list(h) for h in hist] + [list(ev)], "key": repr(keys[i])})
            # keep exploring histories (not only states): a history-dependent hasher differs per path
            if len(hist) + 1 < max_depth and (nxt not in seen or len(hist) < 3 or seen[nxt][0] == hist + (ev,)):
                frontier.append(hist + (ev,))
    chk.count("states", len(seen))
    chk.count("transitions", transitions)
    chk.count("traces_validated_against_impl", transitions)


SPELLINGS = [
    ("h1:11211", ("h1", 11211)), ("h1", ("h1", 11211)), ("[::1]:5", ("::1", 5)), ("unix:/var/run/mc.sock", "/var/run/mc.sock"),
    ("10.0.0.3:11211", ("10.0.0.3", 11211)), ("[fd00::2]", ("fd00::2", 11211)),
    ("Cache-A.Prod:11211", ("Cache-A.Prod", 11211)), ("MC.example.COM", ("MC.example.COM", 11211)),
]


def _w_hash(job, chk):
    """HashClient: contacted server == rule; equivalent spellings == same placement."""
    tier = job
    keys = [k for k in corpus(300 if tier == "quick" else 1200) if isinstance(k, str) and k.isascii() and " " not in k]
    other = ("h9", 11211)
    for text, canon, prefix in [(t, c, p) for (t, c) in SPELLINGS for p in (b"", b"ns:")]:
        logs = []
        for spec in (text, canon):
            servers = [spec, other]
            net = stacks.new_net(None, servers=())
            addr = {}
            for s in (canon, other):
                if isinstance(s, tuple):
                    net.add_server(s[0], s[1])
                    addr[("tcp", s[0], s[1])] = "%s:%s" % s
                else:
                    net.add_server(s)
                    addr[("unix", s)] = s
            hc = HashClient(servers, socket_module=net.module(), default_noreply=False, key_prefix=prefix)
            where = []
            for k in keys:
                ev0 = len(net.events)
                try:
                    hc.get(k)
                except Exception as e:  # e.g. a spelling that no longer reaches the server
                    where.append(f"{type(e).__name__}")
                    continue
                t = {net.socks[e[3]].addr for e in net.events[ev0:] if e[2] in ("connect", "sendall")}
                where.append(addr.get(next(iter(t))) if len(t) == 1 else repr(t))
            logs.append(where)
            names = sorted(addr.values())
            ref = [rendezvous(names, k) for k in keys]
            chk.add()
            chk.outcome(("spelling", repr(spec)))
            if where != ref:
                i = next(i for i in range(len(keys)) if where[i] != ref[i])
                chk.violation("hashclient-routing", f"HashClient({servers!r}, key_prefix={prefix!r}).get({keys[i]!r}) contacted {where[i]!r}, the rule over "
                              f"{names} gives {ref[i]!r}", {"part": "hash", "spec": repr(spec), "key": repr(keys[i])})
        if logs[0] != logs[1]:
            i = next(i for i in range(len(keys)) if logs[0][i] != logs[1][i])
            chk.violation("spelling-changes-placement", f"server spelled {text!r} vs {canon!r}: {keys[i]!r} goes to {logs[0][i]!r} vs "
                          f"{logs[1][i]!r}", {"part": "hash", "spec": repr(text), "key": repr(keys[i])})
    # duplicates under different spellings must not enter the rotation twice
    net = stacks.new_net(None, servers=(("h1", 11211),))
    hc = HashClient(["h1:11211", ("h1", 11211), "h1"], socket_module=net.module())
    chk.add()
    if len(hc.hasher.nodes) != 1:
        chk.violation("duplicate-spellings-in-rotation", f"three spellings of one server give rotation {hc.hasher.nodes}",
                      {"part": "hash", "spec": "dups", "key": None})


DIGEST_SNIPPET = """
import sys, hashlib
sys.path.insert(0, %r)
from pymemcache.client.rendezvous import RendezvousHash
from pymemcache.client.murmur3 import murmur3_32
r = RendezvousHash()
for n in %r: r.add_node(n)
h = hashlib.sha1()
for i in range(400):
    h.update(str(r.get_node('key%%d' %% i)).encode()); h.update(str(r.get_node(('x', i))).encode())
    h.update(str(murmur3_32('\\u20ac%%d' %% i)).encode())
print(h.hexdigest())
"""


def _w_seed(job, chk):
    seed = job
    env = dict(os.environ, PYTHONHASHSEED=str(seed), PYTHONDONTWRITEBYTECODE="1")
    code = DIGEST_SNIPPET % (runner.repo_dir(), UNIVERSE[:5])
    out = subprocess.run([sys.executable, "-c", code], env=env, capture_output=True, text=True, timeout=120)
    chk.add()
    chk.outcome(("seed", seed, out.stdout.strip()))
    chk.info_digest = out.stdout.strip()
    if out.returncode != 0:
        raise runner.HarnessError("digest subprocess failed: " + out.stderr[-300:])


def _w_all(job, chk):
    kind, arg = job
    {"bfs": _w_bfs, "hash": _w_hash, "sets": _w_sets, "oddnodes": _w_oddnodes}[kind](arg, chk)


def run(chk):
    chk.rule = RULE
    chk.assumptions = ["reference rule and MurmurHash3 in vmc/ref/placement.py (validated against published vectors by C14)",
                       "the universe contains one pair of node names whose scores tie for every key (a genuine murmur3 collision of the node prefixes)"]
    tier = chk.tier
    sets = [(ns, tier) for size in range(8, 0, -1) for ns in itertools.combinations(UNIVERSE, size)]
    sets.sort(key=lambda j: -(len(j[0]) if len(j[0]) <= (6 if tier == "thorough" else 5) else 1))
    runner.parallel(chk, _w_all, [("bfs", (tier, h, pat)) for h in ("murmur", "const", "parity") for pat in ("all", "even", "odd", "never", "ctor")] + [("hash", tier)]
                    + [("oddnodes", (ns, tier)) for ns in ODD_NODE_SETS] + [("sets", j) for j in sets])
    seeds = [0, 1, 2, 12345, 4294967295] if tier == "quick" else [0, 1, 2, 3, 7, 12345, 99999, 4294967295]
    sub = chk.fresh()
    runner.parallel(sub, _w_seed, seeds)
    digests = {c[2] for c in sub.classes if c[0] == "seed"}
    part = sub.to_partial()
    part["classes"] = {(c[0], c[1]) for c in sub.classes}
    chk.merge(part)
    chk.info["hashseed_digests"] = sorted(digests)
    if len(digests) != 1:
        chk.violation("depends-on-hash-randomisation", f"placement digest differs across PYTHONHASHSEED values {seeds}: {sorted(digests)}",
                      {"part": "seed", "seeds": seeds})


def replay(detail):
    part = detail["part"]
    if part == "oddnodes":
        tmp = runner.Check(PROPERTY, LEVEL, "quick", 0)
        _w_oddnodes((tuple(eval(x) for x in detail["nodes"]), "quick"), tmp)
        return [v["what"] for v in tmp.violations.values()]
    if part in ("sets", "perm", "tie"):
        nodes = detail.get("perm") or detail["nodes"]
        hf = {"const": const_hash, "parity": parity_hash}.get(detail.get("hash"))
        keys = [k for k in corpus(2000) if repr(k) == detail["key"]]
        if not keys:
            return []
        got = place_impl(nodes, keys, hf)[0]
        ref = rendezvous(detail["nodes"], keys[0], hashfn=hf)
        print(f"    nodes {nodes}: get_node({keys[0]!r}) = {got!r}; rule: {ref!r}")
        return [] if got == ref else [f"{keys[0]!r}: {got!r} != {ref!r}"]
    tmp = runner.Check(PROPERTY, LEVEL, "quick", 0)
    if part == "bfs":
        _w_bfs(("quick", detail["hash"], detail.get("pattern", "all")), tmp)
    elif part == "hash":
        _w_hash("quick", tmp)
    else:
        run(tmp)
    return [v["what"] for v in tmp.violations.values()]
