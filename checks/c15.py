"""C15 - serializers round-trip every value with its exact type.

Bounded-exhaustive enumeration of a value grammar x serializer configurations.  For every
value of a recursive grammar (leaves: bytes / str / int / bool / None / float / subclasses
of the native types, with sizes straddling every compression threshold; containers: list,
tuple, dict, set, frozenset, attribute-carrying object) and every configuration
(PickleSerde and the function pair behind LegacyWrappingSerde for pickle protocols 0..5 and
the default; CompressedSerde for protocols 0..5 x min_compress_len {0,1,10,400} x codec
{zlib, bz2, lzma, identity}; the module-level default instances) the real serialize() and
deserialize() are called once and judged by an oracle that does not look at serde.py:

  * serialize/deserialize do not raise;
  * the stored form is bytes or ASCII str, flags is an int with 0 <= flags < 2**16;
  * deserialize(stored as the client would put it on the wire, flags) is structurally equal
    to the value and has exactly its type at every level (own comparator `same`; floats are
    compared by sign and NaN-ness, subclass instances by base value and __dict__);
  * CompressedSerde: the COMPRESSED mark is set iff the stored form is the output the codec
    produced for the inner serializer's form (recorded by wrapping the codec and the inner
    serde), otherwise the stored form is the inner form; the stored form is never longer than
    the inner form.

A value takes part for protocol p only if the standard library's own pickle round-trips it
exactly at protocol p (picklability filter; the stdlib is the reference, not the library).
"""

from __future__ import annotations

import bz2
import collections
import enum
import hashlib
import json
import lzma
import math
import pickle
import sys
import zlib

from pymemcache import serde as S

from vmc import runner

PROPERTY = "C15"
LEVEL = "exploration"

PROTOCOLS = tuple(range(0, pickle.HIGHEST_PROTOCOL + 1))  # 0..5
THRESHOLDS = (0, 1, 10, 400)
CODECS = ("zlib", "bz2", "lzma", "identity")

RULE = (
    "cases = value x configuration. Values: grammar V0 = leaves (bytes: empty, short, CRLF, "
    "lengths t-1,t,t+1 for every threshold t in {1,10,400} both compressible and incompressible, "
    "5000 bytes; str: ASCII / non-ASCII / lone surrogate, UTF-8 lengths straddling every threshold; "
    "int: 0, +-1, +-2^63, 2^64, +-10^400, 10^4000, decimal lengths straddling every threshold with "
    "both signs; True False None; floats incl. -0.0 inf nan; complex; bytearray; subclasses of "
    "int/str/bytes/float/list/tuple/dict, IntEnum member, namedtuple; lists whose pickle length "
    "straddles every threshold for every protocol); V(n+1) = V(n) + empty containers + wrap(new "
    "members of V(n)) + all ordered pairs of 9 core leaves as [x,y] (once), wrap(x) = [x], (x,), "
    "{b'k':x}, Obj(a=x) and, if hashable, {x}, frozenset({x}), {x:b'v'}; depth 2 quick, 3 thorough. "
    "Configurations: PickleSerde(p), LegacyWrappingSerde(get_python_memcache_serializer(p), "
    "python_memcache_deserializer) for p in 0..5 and default, LegacyWrappingSerde(None,None) "
    "(bytes values only), CompressedSerde(codec, PickleSerde(p), m) for p in 0..5 x m in "
    "{0,1,10,400} x codec in {zlib,bz2,lzma,identity}, CompressedSerde(), module instances "
    "pickle_serde / compressed_serde. distinct non-trivial = distinct (configuration, top-level "
    "type, flags returned, stored type, compression branch: not-attempted / compressed / "
    "compressed-form-rejected) actually observed"
)


# ---------------------------------------------------------------------------
# classes used as values (module level so that pickle can reference them)


class MyInt(int):
    pass


class MyStr(str):
    pass


class MyBytes(bytes):
    pass


class MyFloat(float):
    pass


class MyList(list):
    pass


class MyTuple(tuple):
    pass


class MyDict(dict):
    pass


class Color(enum.IntEnum):
    RED = 1
    BLUE = 2


Point = collections.namedtuple("Point", "x y")


class Obj:
    def __init__(self, **kw):
        self.__dict__.update(kw)

    def __repr__(self):
        return "Obj(%s)" % ",".join(f"{k}={v!r}" for k, v in sorted(vars(self).items()))


class Outer:
    """Classes defined inside a class (dotted __qualname__): older pickle protocols reach them through getattr."""

    class NInt(int):
        pass

    class NList(list):
        pass

    class Shade(enum.Enum):
        DARK = "dark"

    class NObj(Obj):
        pass


ACTIVE = [None]  # the serde object whose serialize() is running (set by evaluate)


class Reentrant(Obj):
    """A picklable object whose __reduce__ stores something else through the very serde that is pickling it
    (a lazily computed attribute behind a cache, say): serialize() is entered again before it has returned."""

    def __reduce__(self):
        s = ACTIVE[0]
        if s is not None:
            ACTIVE[0] = None
            try:
                s.serialize(b"nested", ["inner", 1, b"x" * 50])
            finally:
                ACTIVE[0] = s
        return (Reentrant, (), dict(vars(self)))


SUBCLASSES = {c.__name__: c for c in (MyInt, MyStr, MyBytes, MyFloat, MyList, MyTuple, MyDict)}
SUBCLASSES.update({"Outer.NInt": Outer.NInt, "Outer.NList": Outer.NList})

CONSTS = {
    "True": True, "False": False, "None": None,
    "1.5": 1.5, "0.0": 0.0, "-0.0": -0.0, "inf": float("inf"), "-inf": float("-inf"),
    "nan": float("nan"), "1e308": 1e308, "5e-324": 5e-324, "0.1": 0.1,
    "1+2j": 1 + 2j, "Ellipsis": Ellipsis, "RED": Color.RED, "range3": range(3),
    "pi": math.pi, "0.1+0.2": 0.1 + 0.2, "1/3": 1 / 3, "floatmax": sys.float_info.max, "2**53+2": 2.0 ** 53 + 2,
    "-1/3": -1 / 3, "1e-7/3": 1e-7 / 3,
    "Outer.Shade.DARK": Outer.Shade.DARK, "Outer.NObj": Outer.NObj(a=1), "Outer.NInt-class": Outer.NInt,
}

_RAND = {}


def rand_bytes(n):
    """Deterministic incompressible bytes (SHA-256 counter stream)."""
    if n not in _RAND:
        out = b""
        i = 0
        while len(out) < n:
            out += hashlib.sha256(b"c15-%d" % i).digest()
            i += 1
        _RAND[n] = out[:n]
    return _RAND[n]


# ---------------------------------------------------------------------------
# value specs (JSON-able nested lists) -> values


def build(spec):
    t = spec[0]
    if t == "b":
        kind, n = spec[1], spec[2]
        if kind == "a":
            return b"a" * n
        if kind == "rand":
            return rand_bytes(n)
        if kind == "hex":
            return bytes.fromhex(n)
    if t == "s":
        kind, n = spec[1], spec[2]
        if kind == "a":
            return "a" * n
        if kind == "e":
            return "é" * n  # 2 UTF-8 bytes each
        if kind == "ae":
            return "a" + "é" * n
        if kind == "lit":
            return n
        if kind == "esc":
            return n.encode("ascii").decode("unicode_escape")
        if kind == "surrogate":
            return "\ud800" * n
    if t == "i":
        kind = spec[1]
        if kind == "lit":
            return int(spec[2])
        if kind == "pow2":
            return spec[2] * 2 ** spec[3]
        if kind == "pow10":
            return spec[2] * 10 ** spec[3]
        if kind == "digits":  # exactly spec[3] decimal digits
            return spec[2] * int(("1234567890" * (spec[3] // 10 + 1))[: spec[3]])
    if t == "c":
        return CONSTS[spec[1]]
    if t == "bytearray":
        return bytearray(build(spec[1]))
    if t == "sub":
        cls = SUBCLASSES[spec[1]]
        v = cls(build(spec[2]))
        for name, s in spec[3] if len(spec) > 3 else ():
            setattr(v, name, build(s))
        return v
    if t == "point":
        return Point(build(spec[1]), build(spec[2]))
    if t == "list":
        return [build(s) for s in spec[1]]
    if t == "tuple":
        return tuple(build(s) for s in spec[1])
    if t == "set":
        return {build(s) for s in spec[1]}
    if t == "fset":
        return frozenset(build(s) for s in spec[1])
    if t == "dict":
        return {build(k): build(v) for k, v in spec[1]}
    if t == "obj":
        return Obj(**{name: build(s) for name, s in spec[1]})
    if t == "reent":
        return Reentrant(tag=spec[1], items=[1, b"two"])
    if t == "cyc":  # object graphs with back-references (pickle's memo must handle them)
        kind = spec[1]
        if kind == "list-self":
            v = [1, b"x"]
            v.append(v)
            return v
        if kind == "dict-self":
            v = {"name": "d"}
            v["me"] = v
            return v
        if kind == "tree-parent":
            root = Obj(name="root", children=[])
            child = Obj(name="leaf", parent=root)
            root.children.append(child)
            return root
        if kind == "shared":
            x = [1, 2]
            return [x, x, {"again": x}]
    raise ValueError(spec)


def show_spec(spec, depth=0):
    """Short human-readable rendering of a spec."""
    t = spec[0]
    if t == "b":
        return {"a": f"b'a'*{spec[2]}", "rand": f"<{spec[2]} incompressible bytes>",
                "hex": f"bytes.fromhex('{spec[2]}')"}[spec[1]]
    if t == "s":
        return {"a": f"'a'*{spec[2]}", "e": f"'\\xe9'*{spec[2]}", "ae": f"'a'+'\\xe9'*{spec[2]}",
                "lit": repr(spec[2]), "esc": f"'{spec[2]}'", "surrogate": f"'\\ud800'*{spec[2]}"}[spec[1]]
    if t == "i":
        if spec[1] == "lit":
            return spec[2]
        sign = "-" if spec[2] < 0 else ""
        if spec[1] == "digits":
            return f"{sign}<int of {spec[3]} digits>"
        return f"{sign}{2 if spec[1] == 'pow2' else 10}**{spec[3]}"
    if t == "c":
        return {"RED": "Color.RED", "range3": "range(3)"}.get(spec[1], spec[1])
    if t == "bytearray":
        return f"bytearray({show_spec(spec[1])})"
    if t == "sub":
        extra = "".join(f"; .{n}={show_spec(s)}" for n, s in (spec[3] if len(spec) > 3 else ()))
        return f"{spec[1]}({show_spec(spec[2])}{extra})"
    if t == "point":
        return f"Point({show_spec(spec[1])},{show_spec(spec[2])})"
    if t in ("list", "tuple", "set", "fset"):
        o, c = {"list": "[]", "tuple": "()", "set": ("{", "}"), "fset": ("frozenset({", "})")}[t]
        inner = ",".join(show_spec(s) for s in spec[1])
        if t == "tuple" and len(spec[1]) == 1:
            inner += ","
        if t == "set" and not spec[1]:
            return "set()"
        return f"{o}{inner}{c}"
    if t == "dict":
        return "{" + ",".join(f"{show_spec(k)}:{show_spec(v)}" for k, v in spec[1]) + "}"
    if t == "obj":
        return "Obj(" + ",".join(f"{n}={show_spec(s)}" for n, s in spec[1]) + ")"
    if t == "cyc":
        return f"<{spec[1]} object graph>"
    if t == "reent":
        return f"<object {spec[1]!r} whose __reduce__ serializes another value through the same serde>"
    return repr(spec)


def hashable_spec(spec):
    t = spec[0]
    if t in ("b", "s", "i"):
        return True
    if t == "c":
        return spec[1] not in ("nan",)
    if t == "sub":
        if spec[1] in ("MyInt", "MyStr", "MyBytes", "MyFloat"):
            return True
        return spec[1] == "MyTuple" and hashable_spec(spec[2])
    if t in ("tuple", "fset"):
        return all(hashable_spec(s) for s in spec[1])
    if t == "point":
        return hashable_spec(spec[1]) and hashable_spec(spec[2])
    return False


def leaves():
    L = []
    # bytes
    L += [["b", "a", 0], ["b", "a", 1], ["b", "a", 2], ["b", "hex", "00ff"], ["b", "hex", "0d0a"],
          ["b", "hex", "313233"], ["b", "hex", "80049503"], ["b", "hex", "c2a3"]]
    for n in (9, 10, 11, 399, 400, 401, 5000):
        L += [["b", "a", n], ["b", "rand", n]]
    L += [["b", "rand", 1], ["b", "rand", 2]]
    # str
    L += [["s", "a", 0], ["s", "a", 1], ["s", "a", 2], ["s", "lit", "123"], ["s", "lit", "a b\r\nc"],
          ["s", "e", 1], ["s", "esc", "\\u65e5\\u672c\\u8a9e"], ["s", "esc", "\\U0001f600"],
          ["s", "esc", "\\x00"], ["s", "surrogate", 1],
          # text that begins with U+FEFF (a byte-order mark is data here, not an encoding signature)
          ["s", "esc", "\\ufeff"], ["s", "esc", "\\ufeffabc"], ["s", "esc", "\\ufeff\\ufeffx"],
          ["s", "esc", "\\ufffe"], ["s", "esc", "a\\u0300"], ["s", "esc", "\\x85\\u2028"]]
    L += [["b", "hex", "efbbbf41"], ["b", "hex", "fffe4100"]]
    # bytes that happen to look like the output of a codec (magic numbers; a real short compressed stream)
    L += [["b", "hex", zlib.compress(b"hi").hex()], ["b", "hex", "789c"], ["b", "hex", "789c4bcb07"], ["b", "hex", "425a6839"],
          ["b", "hex", bz2.compress(b"hi").hex()], ["b", "hex", "fd377a585a00"], ["b", "hex", lzma.compress(b"hi").hex()],
          ["b", "hex", "1f8b0800"]]
    for n in (9, 10, 11, 399, 400, 401, 5000):
        L.append(["s", "a", n])
    L += [["s", "e", 5], ["s", "ae", 4], ["s", "ae", 5], ["s", "e", 200], ["s", "ae", 199], ["s", "ae", 200],
          ["s", "e", 400]]
    # int
    L += [["i", "lit", "0"], ["i", "lit", "1"], ["i", "lit", "-1"], ["i", "lit", "9"], ["i", "lit", "10"],
          ["i", "lit", "-9"], ["i", "lit", "255"], ["i", "lit", "65536"],
          ["i", "pow2", 1, 63], ["i", "pow2", -1, 63], ["i", "pow2", 1, 64],
          ["i", "pow10", 1, 400], ["i", "pow10", -1, 400], ["i", "pow10", 1, 4000], ["i", "pow10", -1, 4000]]
    for n in (9, 10, 11, 399, 400, 401):
        L += [["i", "digits", 1, n], ["i", "digits", -1, n]]
    # bool None float and other picklable scalars
    for name in ("True", "False", "None", "1.5", "0.0", "-0.0", "inf", "-inf", "nan", "1e308", "5e-324",
                 "0.1", "1+2j", "Ellipsis", "RED", "range3", "Outer.Shade.DARK", "Outer.NObj", "Outer.NInt-class",
                 "pi", "0.1+0.2", "1/3", "floatmax", "2**53+2", "-1/3", "1e-7/3"):
        L.append(["c", name])
    L.append(["bytearray", ["b", "a", 3]])
    L.append(["bytearray", ["b", "rand", 401]])
    # subclasses of the native types
    L += [["sub", "MyInt", ["i", "lit", "5"]], ["sub", "MyInt", ["i", "lit", "0"]],
          ["sub", "MyInt", ["i", "pow10", 1, 400]],
          ["sub", "MyInt", ["i", "lit", "7"], [["tag", ["s", "lit", "x"]]]],
          ["sub", "MyStr", ["s", "lit", "x"]], ["sub", "MyStr", ["s", "e", 1]], ["sub", "MyStr", ["s", "a", 401]],
          ["sub", "MyStr", ["s", "a", 0]],
          ["sub", "MyBytes", ["b", "a", 1]], ["sub", "MyBytes", ["b", "a", 0]], ["sub", "MyBytes", ["b", "rand", 401]],
          ["sub", "MyFloat", ["c", "1.5"]],
          ["sub", "MyList", ["list", [["i", "lit", "1"]]]],
          ["sub", "MyTuple", ["tuple", [["i", "lit", "1"], ["b", "a", 1]]]],
          ["sub", "MyDict", ["dict", [[["b", "a", 1], ["i", "lit", "1"]]]]],
          ["sub", "MyDict", ["dict", []], [["note", ["b", "a", 2]]]],
          ["point", ["i", "lit", "1"], ["b", "a", 1]],
          ["sub", "Outer.NInt", ["i", "lit", "5"]], ["sub", "Outer.NList", ["list", [["i", "lit", "1"]]]]]
    L += [["cyc", "list-self"], ["cyc", "dict-self"], ["cyc", "tree-parent"], ["cyc", "shared"]]
    L += [["reent", "r"]]
    # lists whose pickle straddles each threshold, for every protocol (stdlib pickle as ruler)
    seen = set()
    for p in PROTOCOLS:
        for t in (10, 400):
            for n in range(0, t + 2):
                ln = len(pickle.dumps([b"a" * n], p))
                if ln in (t - 1, t, t + 1) and n not in seen:
                    seen.add(n)
    for n in sorted(seen):
        L.append(["list", [["b", "a", n]]])
    return L


CORE = [["b", "a", 1], ["s", "lit", "123"], ["i", "lit", "1"], ["c", "True"], ["c", "None"], ["c", "1.5"],
        ["sub", "MyInt", ["i", "lit", "5"]], ["s", "e", 1], ["i", "pow10", 1, 400]]

# values whose uncompressed form exceeds memcached's default 1 MiB item size while the compressed form is tiny
BIG = [["b", "a", 1024 * 1024], ["b", "a", 1024 * 1024 + 1], ["b", "a", 3 * 1024 * 1024], ["s", "a", 1024 * 1024 + 1],
       ["list", [["b", "a", 2 * 1024 * 1024]]]]

EMPTIES = [["list", []], ["tuple", []], ["dict", []], ["set", []], ["fset", []], ["obj", []]]


def wrap(x):
    out = [["list", [x]], ["tuple", [x]], ["dict", [[["b", "a", 1], x]]], ["obj", [["a", x]]]]
    if hashable_spec(x):
        out += [["set", [x]], ["fset", [x]], ["dict", [[x, ["b", "a", 1]]]]]
    return out


_VALUES = {}


def values(depth):
    """The ordered list of specs of the grammar up to `depth` (deterministic)."""
    if depth in _VALUES:
        return _VALUES[depth]
    level = leaves()
    allv = list(level)
    for d in range(1, depth + 1):
        new = []
        if d == 1:
            new += EMPTIES
            new += [["list", [x, y]] for x in CORE for y in CORE]
        for x in level:
            new += wrap(x)
        allv += new
        level = new
    allv += BIG  # not wrapped: each costs milliseconds per configuration
    seen = set()
    out = []
    for s in allv:
        k = json.dumps(s)
        if k not in seen:
            seen.add(k)
            out.append(s)
    _VALUES[depth] = out
    return out


# ---------------------------------------------------------------------------
# structural equality with exact types


_SEEN = None


def same(a, b):
    """Structural equality with exact types; tolerates cyclic object graphs."""
    global _SEEN
    top = _SEEN is None
    if top:
        _SEEN = set()
    try:
        if isinstance(a, (list, dict, Obj)):
            key = (id(a), id(b))
            if key in _SEEN:
                return True  # already being compared further up: the cycle closes the same way
            _SEEN.add(key)
        return _same0(a, b)
    finally:
        if top:
            _SEEN = None


def _same0(a, b):
    if type(a) is not type(b):
        return False
    if a is None or a is Ellipsis or isinstance(a, (bool, enum.Enum)):
        return a is b
    if isinstance(a, float):
        if not _same_float(float(a), float(b)):
            return False
        return _same_attrs(a, b)
    if isinstance(a, complex):
        return _same_float(a.real, b.real) and _same_float(a.imag, b.imag)
    if isinstance(a, int):
        return int(a) == int(b) and _same_attrs(a, b)
    if isinstance(a, str):
        return str.__eq__(a, b) is True and _same_attrs(a, b)
    if isinstance(a, (bytes, bytearray)):
        return bytes(a) == bytes(b) and _same_attrs(a, b)
    if isinstance(a, (list, tuple)):
        return len(a) == len(b) and all(same(x, y) for x, y in zip(a, b)) and _same_attrs(a, b)
    if isinstance(a, dict):
        if len(a) != len(b):
            return False
        try:
            bk = {k: k for k in b}
            for k, v in a.items():
                if k not in bk or not same(k, bk[k]) or not same(v, b[k]):
                    return False
        except TypeError:
            return False
        return _same_attrs(a, b)
    if isinstance(a, (set, frozenset)):
        if len(a) != len(b):
            return False
        bk = {k: k for k in b}
        return all(k in bk and same(k, bk[k]) for k in a)
    if isinstance(a, range):
        return a == b
    if isinstance(a, Obj):
        return same(vars(a), vars(b))
    return a == b


def _same_float(x, y):
    if x != x or y != y:
        return x != x and y != y
    return x == y and math.copysign(1.0, x) == math.copysign(1.0, y)


def _same_attrs(a, b):
    da, db = getattr(a, "__dict__", None), getattr(b, "__dict__", None)
    if not da and not db:
        return True
    return same(dict(da or {}), dict(db or {}))


def short(v, n=70):
    try:
        r = repr(v)
    except Exception as e:  # noqa
        r = f"<unrepresentable {type(v).__name__}: {e}>"
    if len(r) > n:
        r = r[: n - 18] + f"...<{len(r)} chars>"
    return f"{type(v).__name__}:{r}"


def tname(v):
    return type(v).__name__


def category(v):
    """Coarse value class used in violation signatures (a grouping, not part of the oracle)."""
    t = type(v)
    return t.__name__ if t in (bytes, str, int) else "other-object"


# ---------------------------------------------------------------------------
# configurations


class RecSerde:
    """Wraps the inner serde handed to CompressedSerde and remembers what it produced."""

    def __init__(self, inner):
        self.inner = inner
        self.out = None

    def serialize(self, key, value):
        self.out = None
        r = self.inner.serialize(key, value)
        self.out = r
        return r

    def deserialize(self, key, value, flags):
        return self.inner.deserialize(key, value, flags)


class RecCodec:
    def __init__(self, name):
        self.name = name
        self.calls = []
        if name == "zlib":
            self.c, self.d = zlib.compress, zlib.decompress
        elif name == "bz2":
            self.c, self.d = bz2.compress, bz2.decompress
        elif name == "lzma":
            self.c, self.d = lzma.compress, lzma.decompress
        else:
            self.c = self.d = lambda x: x

    def compress(self, data):
        out = self.c(data)
        self.calls.append((data, out))
        return out

    def decompress(self, data):
        return self.d(data)


def configs():
    """Every configuration as a JSON-able tuple: (kind, p, m, codec)."""
    out = []
    for p in PROTOCOLS + ("default",):
        out.append(("PickleSerde", p, None, None))
    out.append(("pickle_serde", "default", None, None))
    for p in PROTOCOLS + ("default",):
        out.append(("LegacyWrappingSerde", p, None, None))
    out.append(("LegacyWrappingSerde(None,None)", None, None, None))
    for codec in CODECS:
        for m in THRESHOLDS:
            for p in PROTOCOLS:
                out.append(("CompressedSerde", p, m, codec))
    out.append(("CompressedSerde()", "default", 400, "zlib"))
    out.append(("compressed_serde", "default", 400, "zlib"))
    return out


class Subject:
    """One constructed configuration: the object under test plus the recorders around it."""

    def __init__(self, cfg):
        kind, p, m, codec = cfg
        self.cfg = tuple(cfg)
        self.kind = kind
        self.rec = None
        self.codec = None
        self.inner_for_default = None
        if kind == "PickleSerde":
            self.obj = S.PickleSerde() if p == "default" else S.PickleSerde(pickle_version=p)
        elif kind == "pickle_serde":
            self.obj = S.pickle_serde
        elif kind == "LegacyWrappingSerde":
            ser = S.python_memcache_serializer if p == "default" else S.get_python_memcache_serializer(p)
            self.obj = S.LegacyWrappingSerde(ser, S.python_memcache_deserializer)
        elif kind == "LegacyWrappingSerde(None,None)":
            self.obj = S.LegacyWrappingSerde(None, None)
        elif kind == "CompressedSerde":
            self.rec = RecSerde(S.PickleSerde(pickle_version=p))
            self.codec = RecCodec(codec)
            self.obj = S.CompressedSerde(compress=self.codec.compress, decompress=self.codec.decompress,
                                         serde=self.rec, min_compress_len=m)
        elif kind == "CompressedSerde()":
            self.obj = S.CompressedSerde()
            self.inner_for_default = S.pickle_serde
        elif kind == "compressed_serde":
            self.obj = S.compressed_serde
            self.inner_for_default = S.pickle_serde
        else:
            raise ValueError(cfg)
        self.proto = pickle.HIGHEST_PROTOCOL if p in ("default", None) else p
        self.compressed = kind in ("CompressedSerde", "CompressedSerde()", "compressed_serde")
        self.cls = {"pickle_serde": "PickleSerde", "CompressedSerde()": "CompressedSerde",
                    "compressed_serde": "CompressedSerde"}.get(kind, kind)


def cfg_label(cfg):
    kind, p, m, codec = cfg
    if kind == "PickleSerde":
        return f"PickleSerde({'' if p == 'default' else 'pickle_version=%s' % p})"
    if kind == "LegacyWrappingSerde":
        return ("LegacyWrappingSerde(python_memcache_serializer, python_memcache_deserializer)" if p == "default"
                else f"LegacyWrappingSerde(get_python_memcache_serializer({p}), python_memcache_deserializer)")
    if kind == "CompressedSerde":
        return f"CompressedSerde({codec}, serde=PickleSerde({p}), min_compress_len={m})"
    return kind


def to_wire(stored):
    """What the client transmits: bytes as they are, ASCII text encoded.  None if neither."""
    if isinstance(stored, (bytes, bytearray)):
        return bytes(stored)
    if isinstance(stored, str) and stored.isascii():
        return stored.encode("ascii")
    return None


KEY = b"k"


def stdlib_roundtrips(value, proto):
    try:
        back = pickle.loads(pickle.dumps(value, proto))
    except Exception:  # noqa
        return False
    return same(back, value)


def evaluate(subj, spec, value, mark):
    """Judge one (configuration, value).  Returns (problems, outcome_key);
    problems = [(kind, extra, text)]; kind/extra go into the signature."""
    problems = []
    vs = show_spec(spec)
    lab = cfg_label(subj.cfg)
    top = tname(value)
    if subj.codec is not None:
        subj.codec.calls.clear()
    if subj.rec is not None:
        subj.rec.out = None
    ACTIVE[0] = subj.obj
    try:
        res = subj.obj.serialize(KEY, value)
    except Exception as e:  # noqa
        ACTIVE[0] = None
        inner = ""
        if subj.rec is not None and subj.rec.out is not None:
            inner = f" (inner serializer had produced {short(subj.rec.out[0], 40)})"
        problems.append(("serialize-raises", type(e).__name__,
                         f"{lab}.serialize(b'k', {vs}) raised {type(e).__name__}: {str(e)[:100]}{inner}"))
        return problems, (subj.cfg, top, "serialize-raises", type(e).__name__)
    ACTIVE[0] = None
    if not (isinstance(res, tuple) and len(res) == 2):
        problems.append(("serialize-shape", tname(res), f"{lab}.serialize(b'k', {vs}) returned {short(res)}, "
                         "not a (value, flags) pair"))
        return problems, (subj.cfg, top, "serialize-shape")
    stored, flags = res
    if type(flags) is not int or not (0 <= flags < 65536):
        problems.append(("flags-range", "", f"{lab}.serialize(b'k', {vs}) returned flags {flags!r}, "
                         "not an int in 0..65535"))
        if not isinstance(flags, int):
            return problems, (subj.cfg, top, "flags-type")
    wire = to_wire(stored)
    if wire is None:
        problems.append(("not-transmittable", tname(stored),
                         f"{lab}.serialize(b'k', {vs}) returned {short(stored, 50)}: neither bytes nor ASCII text"))
        return problems, (subj.cfg, top, flags, tname(stored), "not-transmittable")

    branch = "-"
    if subj.compressed:
        if subj.rec is not None:
            inner = subj.rec.out
            calls = list(subj.codec.calls)
        else:
            inner = subj.inner_for_default.serialize(KEY, value)
            calls = None
        iw = to_wire(inner[0]) if inner is not None else None
        if iw is None:
            problems.append(("inner-form-unusable", "", f"{lab}: inner serializer returned {short(inner, 50)} "
                             f"for {vs}"))
        else:
            marked = bool(flags & mark)
            if calls is None:
                comp = zlib.compress(iw)
                is_codec_output = wire == comp
                attempted = None
            else:
                is_codec_output = any(to_wire(i) == iw and to_wire(o) == wire for i, o in calls
                                      if to_wire(i) is not None and to_wire(o) is not None)
                attempted = bool(calls)
            branch = "compressed" if marked else ("rejected" if attempted else "not-attempted")
            if marked and not is_codec_output:
                what = "the uncompressed form" if wire == iw else "something else"
                problems.append(("marked-but-not-compressed", "",
                                 f"{lab}.serialize(b'k', {vs}) set the COMPRESSED flag (flags={flags}) but stored "
                                 f"{what} ({len(wire)} bytes; inner form {len(iw)} bytes), not the codec's output"))
            if not marked and wire != iw:
                what = "the codec's output" if is_codec_output else "something else"
                problems.append(("unmarked-but-not-plain", "",
                                 f"{lab}.serialize(b'k', {vs}) did not set the COMPRESSED flag (flags={flags}) but "
                                 f"stored {what} ({len(wire)} bytes) instead of the inner form ({len(iw)} bytes)"))
            if len(wire) > len(iw):
                problems.append(("stored-larger", "",
                                 f"{lab}.serialize(b'k', {vs}) stored {len(wire)} bytes although the uncompressed "
                                 f"form has {len(iw)} bytes"))

    # round trip, as through a server (the client hands bytes to deserialize) and literally
    forms = [("wire", wire)]
    if not isinstance(stored, bytes):
        forms.append(("direct", stored))
    for fname, form in forms:
        try:
            back = subj.obj.deserialize(KEY, form, flags)
        except Exception as e:  # noqa
            problems.append(("deserialize-raises", type(e).__name__,
                             f"{lab}.deserialize(b'k', <{fname} form of {vs}, {len(form)} "
                             f"{'bytes' if fname == 'wire' else 'chars'}>, {flags}) raised "
                             f"{type(e).__name__}: {str(e)[:80]}"))
            continue
        if isinstance(back, (list, dict, set, bytearray, Obj)):
            # a mutable result belongs to the caller: two fetches of the same item give two objects
            try:
                again = subj.obj.deserialize(KEY, form, flags)
            except Exception:  # noqa
                again = None
            if again is back:
                problems.append(("deserialize-returns-shared-object", top,
                                 f"{lab}: deserializing the stored form of {vs} twice returns the very same {top} object "
                                 f"(a caller that modifies one result changes what the next fetch returns)"))
        if type(back) is not type(value):
            problems.append(("roundtrip-type", f"{top}->{tname(back)}",
                             f"{lab}: {vs} came back as {short(back, 50)} (flags={flags}, {fname} form)"))
        elif not same(back, value):
            problems.append(("roundtrip-value", top,
                             f"{lab}: {vs} came back as a different {top}: {short(back, 50)} "
                             f"(flags={flags}, {fname} form)"))
    return problems, (subj.cfg, top, flags, tname(stored), branch)


def applicable(subj, value):
    if subj.kind == "LegacyWrappingSerde(None,None)":
        return type(value) is bytes  # no serializer: the caller must supply plain bytes
    return True


SEP = "@@"


def raw_sig(kind, subj, top, extra):
    k, p, m, codec = subj.cfg
    base = "|".join(x for x in (kind, subj.cls, top, extra) if x)
    return base + SEP + json.dumps([k, p, m, codec])


def _worker(job, chk):
    depth, lo, hi = job
    specs = values(depth)[lo:hi]
    mark = S.FLAG_COMPRESSED
    subjects = [Subject(c) for c in configs()]
    for spec in specs:
        value = build(spec)
        ok_proto = {}
        for subj in subjects:
            if not applicable(subj, value):
                continue
            pr = subj.proto
            if pr not in ok_proto:
                ok_proto[pr] = stdlib_roundtrips(value, pr)
                if not ok_proto[pr]:
                    chk.count("value_x_protocol_not_picklable_by_stdlib")
            if not ok_proto[pr]:
                continue
            problems, key = evaluate(subj, spec, value, mark)
            chk.add()
            chk.outcome(key)
            if key[-1] in ("compressed", "rejected", "not-attempted"):
                chk.count("compression_" + key[-1].replace("-", "_"))
            for kind, extra, text in problems:
                cat = "" if kind in ("roundtrip-type", "roundtrip-value") else category(value)
                chk.violation(raw_sig(kind, subj, cat, extra), text, {"config": list(subj.cfg), "spec": spec})
        # serialize must not have modified the caller's value
        if not same(value, build(spec)):
            chk.violation("input-mutated|" + tname(value), f"serializing {show_spec(spec)} modified the value",
                          {"config": None, "spec": spec})
    if lo == 0:
        for spec in (["i", "pow10", -1, 400], ["c", "True"], ["sub", "MyStr", ["s", "e", 1]]):
            for cfg in (("PickleSerde", 0, None, None), ("CompressedSerde", 2, 10, "bz2")):
                subj = Subject(cfg)
                v = build(spec)
                try:
                    stored, flags = subj.obj.serialize(KEY, v)
                    back = short(subj.obj.deserialize(KEY, to_wire(stored), flags), 40)
                    st = short(stored, 40)
                except Exception as e:  # noqa
                    st, flags, back = f"raised {type(e).__name__}", None, None
                chk.sample({"config": cfg_label(cfg), "value": show_spec(spec), "stored": st, "flags": flags,
                            "deserialized": back})


def _collapse(chk):
    """One signature per defect class: the configuration dimensions over which a class of
    violation was seen are rendered as sets ('*' = every value of that dimension)."""
    groups = {}
    for sig, v in chk.violations.items():
        if SEP not in sig:
            groups.setdefault((sig, None), []).append((None, v))
            continue
        base, cfgj = sig.split(SEP, 1)
        cfg = json.loads(cfgj)
        groups.setdefault((base, base.split("|")[1]), []).append((cfg, v))
    out = {}
    for (base, cls), items in groups.items():
        if cls is None:
            out[base] = items[0][1]
            continue
        ps = {str(c[1]) for c, _ in items}
        ms = {c[2] for c, _ in items}
        cs = {c[3] for c, _ in items}
        full_p = {str(p) for p in PROTOCOLS}
        dims = []
        if cls == "CompressedSerde":
            dims.append("codec=" + ("*" if cs >= set(CODECS) else ",".join(sorted(cs))))
            dims.append("min_compress_len=" + ("*" if ms >= set(THRESHOLDS) else ",".join(map(str, sorted(ms)))))
        if cls != "LegacyWrappingSerde(None,None)":
            dims.append("protocol=" + ("*" if ps >= full_p else ",".join(sorted(ps))))
        items.sort(key=lambda cv: json.dumps(cv[0]))
        first = items[0][1]
        out["|".join([base] + dims)] = {"what": first["what"], "count": sum(v["count"] for _, v in items),
                                        "detail": first["detail"]}
    chk.violations = out


def run(chk):
    chk.rule = RULE
    chk.assumptions = [
        "a value takes part for protocol p only if the standard library's pickle round-trips it exactly at p",
        "equality is structural with exact types at every level; floats by sign and NaN-ness",
        "the client transmits bytes as they are and str after .encode('ascii'); deserialize receives bytes",
        "the COMPRESSED mark is the library's public constant FLAG_COMPRESSED",
        "nothing is demanded about WHEN the compressor is tried (threshold semantics are not part of the statement)",
        "integers beyond CPython's 4300-digit str() limit are outside (interpreter limit)",
    ]
    depth = 2 if chk.tier == "quick" else 3
    n = len(values(depth))
    chk.info["grammar_depth"] = depth
    chk.info["values"] = n
    chk.info["configurations"] = len(configs())
    step = max(8, n // 256)
    jobs = [(depth, lo, min(n, lo + step)) for lo in range(0, n, step)]
    runner.parallel(chk, _worker, jobs)
    _collapse(chk)


def replay(detail):
    spec = detail["spec"]
    value = build(spec)
    if detail.get("config") is None:
        for cfg in configs():
            subj = Subject(cfg)
            if applicable(subj, value):
                try:
                    subj.obj.serialize(KEY, value)
                except Exception:  # noqa
                    pass
        return [] if same(value, build(spec)) else [f"serializing {show_spec(spec)} modified the value"]
    cfg = tuple(detail["config"])
    subj = Subject(cfg)
    print("    config:", cfg_label(cfg))
    print("    value :", show_spec(spec))
    try:
        r = subj.obj.serialize(KEY, value)
        print("    serialize ->", short(r[0], 60), "flags", r[1])
    except Exception as e:  # noqa
        print("    serialize raised", type(e).__name__, e)
    if not applicable(subj, value):
        print("    (this configuration has no serializer and the value is not plain bytes: outside the property)")
        return []
    if not stdlib_roundtrips(value, subj.proto):
        print("    (stdlib pickle cannot round-trip this value at this protocol: outside the property)")
        return []
    problems, _ = evaluate(subj, spec, value, S.FLAG_COMPRESSED)
    return [t for _, _, t in problems]
