"""CLI:  python -m vmc C01 quick|thorough      python -m vmc C01 --replay <path>"""
import importlib
import json
import os
import sys

from vmc import runner


def main(argv):
    if len(argv) < 2:
        print("usage: check <Cnn> quick|thorough | --replay <path>")
        return 2
    pid = argv[0].upper()
    runner.bootstrap()
    sys.path.insert(0, runner.VERIF_DIR)
    mod = importlib.import_module("checks." + pid.lower())
    if argv[1] == "--replay":
        with open(argv[2]) as f:
            rec = json.load(f)
        if "harness_job" in rec["detail"]:
            print(f"    recorded outside a judged call (job {rec['detail']['harness_job']}): re-run `bin/check {pid} quick` to see it again")
            print("REPRODUCED?:", rec.get("what", ""))
            return 1
        texts = mod.replay(rec["detail"])
        for t in texts:
            print("REPRODUCED:", t)
        if not texts:
            print("not reproduced on this tree")
        return 1 if texts else 0
    tier = argv[1]
    if tier not in ("quick", "thorough"):
        print("tier must be quick or thorough")
        return 2
    seed = int(os.environ.get("VERIF_SEED", "0") or 0)
    chk = runner.Check(pid, mod.LEVEL, tier, seed)
    try:
        mod.run(chk)
    except runner.HarnessError as e:
        print(f"HARNESS-ERROR: {e}")
        return 2
    return chk.finish()


if __name__ == "__main__":
    sys.exit(main(sys.argv[1:]))
