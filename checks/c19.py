"""C19 - ElastiCache auto-discovery: rotation equals the advertised node list.

Engine E2: breadth-first search over reconfiguration histories of a real
AWSElastiCacheHashClient over simnet (which also serves `config get cluster`): initial lists of
1..6 nodes from a 6-node universe; events scale-up, scale-down (first/last), replace one,
replace all; use_vpc on/off; the config reply delivered whole, byte by byte, and (for the
constructor and the first reconfiguration) cut at every single position.  After construction
and after every event the rotation, the routing of a key corpus, the connections opened and
the connections left open are compared with the advertised list.
"""

from __future__ import annotations

import collections
import logging

from pymemcache.client.ext.aws_ec_client import AWSElastiCacheHashClient
from pymemcache.exceptions import MemcacheError

from vmc import runner, simnet, stacks

PROPERTY = "C19"
LEVEL = "model_checking"
RULE = (
    "BFS over reconfiguration histories: state = advertised node list (ordered) reached by events up / down_last / "
    "down_first / replace_first / replace_all / blip_first (a node fails, is evicted by traffic, recovers) from initial "
    "lists of 1..6 nodes of a universe in which two nodes share host name and IP and differ by port; with and without "
    "traffic before the reconfiguration; every transition builds a fresh real "
    "client, replays the history and checks rotation, routing of a key corpus, connection attempts and open sockets; "
    "x use_vpc x delivery (whole, byte-wise) + every single cut position of the config reply at depth <= 1; "
    "distinct_nontrivial = distinct (use_vpc, delivery, history) with at least one reconfiguration"
)
ENDPOINT = "my-cluster.abcxyz.cfg.use1.cache.amazonaws.com:11211"
EP_HOST, EP_PORT = ENDPOINT.rsplit(":", 1)
# host names as ElastiCache hands them out: cluster ids contain hyphens and digits
UNIVERSE = [(f"{('my-cache-%d' % i) if i % 2 else ('node%d' % i)}.abcxyz.{'0001.' if i == 3 else ''}use1.cache.amazonaws.com",
             f"10.0.0.{i + 1}", 11211 + (i % 3)) for i in range(5)]
# a second memcached on node0's machine: same host name and IP address, another port
UNIVERSE.insert(1, (UNIVERSE[0][0], UNIVERSE[0][1], 11299))
# 'blip_first': the first node fails, traffic makes the client evict it, it recovers (no reconfiguration)
EVENTS = ("up", "down_last", "down_first", "replace_first", "replace_all", "blip_first")
# 'backoff_first' (only with retries configured, variant +ra1): the first node holds two pooled connections (two
# calls overlapped), one call on it fails, the node recovers at once - the client still has it in retry back-off
EVENTS_RA1 = EVENTS + ("backoff_first",)


def events_for(delivery):
    return EVENTS_RA1 if "+ra1" in delivery else EVENTS


def apply_event(L, ev):
    unused = [n for n in UNIVERSE if n not in L]
    if ev == "up":
        return L + [unused[0]] if unused else None
    if ev == "down_last":
        return L[:-1] if len(L) > 1 else None
    if ev == "down_first":
        return L[1:] if len(L) > 1 else None
    if ev == "replace_first":
        return [unused[0]] + L[1:] if unused else None
    if ev == "replace_all":
        return unused if unused else list(reversed(L))
    if ev in ("blip_first", "backoff_first"):
        return list(L)
    raise ValueError(ev)


def corpus(n):
    return [f"key{i}" for i in range(n // 2)] + [f"user:{i}:x".encode() for i in range(n - n // 2)]


class _Formatting(logging.Handler):
    """Renders every record (so lazily formatted arguments are evaluated) and drops it."""

    def emit(self, record):
        record.getMessage()


def _library_logging(debug):
    # the application's log level is part of the environment: with "+dbg" the library's loggers are at DEBUG
    lg = logging.getLogger("pymemcache")
    if not any(isinstance(h, _Formatting) for h in lg.handlers):
        lg.addHandler(_Formatting())
        lg.propagate = False
    lg.setLevel(logging.DEBUG if debug else logging.NOTSET)
    for name, child in list(logging.Logger.manager.loggerDict.items()):
        if name.startswith("pymemcache.") and isinstance(child, logging.Logger):
            child.setLevel(logging.NOTSET)
            child.disabled = False


class World:
    def __init__(self, L0, use_vpc, delivery, cut=None, version=9, traffic=True):
        self.traffic = traffic
        _library_logging("+dbg" in delivery)
        self.tls = "+tls" in delivery
        self.pooled = "+pooled" in delivery  # use_pooling=True: every node gets a PooledClient
        self.ra = 1 if "+ra1" in delivery else 0
        if "+v1" in delivery:
            version = 1  # a young cluster: the configuration version is smaller than the number of nodes
        delivery = delivery.split("+")[0]
        self.net = stacks.new_net(None, servers=())
        self.net.tls_required = self.tls
        self.use_vpc = use_vpc
        self.delivery = delivery
        self.version = version
        self.ep = self.net.add_server(EP_HOST, int(EP_PORT), cluster=(version, list(L0)))
        for fqdn, ip, port in UNIVERSE:
            srv = self.net.add_server(ip, port)
            self.net.servers[("tcp", fqdn, port)] = srv
        self.L = list(L0)
        self.problems = []
        self.client = None
        self._exchange(lambda: self._construct(), cut)

    def _construct(self):
        self.client = AWSElastiCacheHashClient(ENDPOINT, socket_module=self.net.module(), use_vpc=self.use_vpc,
                                               default_noreply=False, connect_timeout=1, timeout=1,
                                               retry_attempts=self.ra, retry_timeout=5, dead_timeout=600,
                                               tls_context=self.net.tls() if self.tls else None,
                                               **({"use_pooling": True, "max_pool_size": 2} if self.pooled else {}))

    def _exchange(self, fn, cut):
        net = self.net
        net.call += 1
        net.delivery = "byte" if self.delivery == "byte" else "whole"
        net.cut_next = cut
        nblocked = len(net.blocked)
        try:
            fn()
            self.exc = None
        except Exception as e:
            self.exc = e
        net.delivery = "whole"
        net.cut_next = None
        self.blocked = len(net.blocked) > nblocked

    def reconfigure(self, L, cut=None):
        self.version += 1
        self.L = list(L)
        self.ep.cluster = (self.version, list(L))
        e0 = len(self.net.events)
        self._exchange(lambda: self.client.reconfigure_nodes(), cut)
        # connections opened by the reconfiguration itself: only to the endpoint
        ep = ("tcp", EP_HOST, int(EP_PORT))
        self.reconf_connects = sorted({self.net.socks[e[3]].addr for e in self.net.events[e0:]
                                       if e[2] in ("connect", "connect_fail") and e[3] >= 0} - {ep})

    def blip(self, nkeys):
        """The first advertised node fails, traffic hits it (the client evicts it), then it recovers."""
        net = self.net
        fqdn, ip, port = self.L[0]
        addr = ("tcp", ip if self.use_vpc else fqdn, port)
        net.failing[addr] = "refused"
        for k in corpus(nkeys):
            net.call += 1
            try:
                self.client.get(k)
            except Exception:
                pass
        net.failing.pop(addr, None)
        self.exc = None

    def backoff(self, nkeys):
        net, c = self.net, self.client
        fqdn, ip, port = self.L[0]
        addr = ("tcp", ip if self.use_vpc else fqdn, port)
        name = f"{ip if self.use_vpc else fqdn}:{port}"
        mine = [k for k in corpus(nkeys) if str(c.hasher.get_node(k)) == name][:3]
        node = c.clients.get(name)
        if node is None or len(mine) < 3:
            return
        net.call += 1
        try:
            if self.pooled:
                held = node.client_pool.get()  # as a second thread in the middle of its call would
                held.get(mine[0])
                c.get(mine[1])
                node.client_pool.release(held)
            else:
                c.get(mine[0])
            for s in net.socks:
                if s.addr == addr and s.conn is not None and s.state == "connected":
                    s.conn.reset = True  # the node restarts: every connection to it breaks (the client has not noticed yet)
            c.get(mine[2])
        except Exception:
            pass
        self.exc = None

    def expected(self):
        return sorted(f"{ip if self.use_vpc else fqdn}:{port}" for fqdn, ip, port in self.L)

    def expected_addrs(self):
        return {("tcp", ip if self.use_vpc else fqdn, port) for fqdn, ip, port in self.L}

    def judge(self, nkeys, what):
        """Checks after construction / after a reconfiguration. Returns [(clause, text)]."""
        P = []
        net, c = self.net, self.client
        if getattr(self, "reconf_connects", None):
            P.append(("reconfigure-connects-to-nodes", f"{what} opened connections to {self.reconf_connects} "
                      f"(only the configuration endpoint needs to be contacted)"))
            self.reconf_connects = []
        if self.tls and net.raw_io:
            call, sid, what_io = net.raw_io[0]
            P.append(("plaintext-io-despite-tls_context", f"{what}: {what_io} on socket {sid} (to {net.socks[sid].addr}) that was "
                      f"never wrapped by the configured tls_context"))
            net.raw_io.clear()
        if self.exc is not None or c is None:
            P.append(("discovery-raises", f"{what} raised {type(self.exc).__name__}: {self.exc}"
                      + (" (the reader waited for bytes that never come)" if self.blocked else "")))
            return P
        exp = self.expected()
        rot = sorted(map(str, c.hasher.nodes))
        if rot != exp:
            P.append(("rotation-differs", f"after {what} the rotation is {rot}, the endpoint advertises {exp}"))
        if sorted(map(str, c.clients)) != exp:
            P.append(("clients-differ", f"after {what} clients are {sorted(map(str, c.clients))}, advertised {exp}"))
        ok_addrs = self.expected_addrs()
        ev0 = len(net.events)
        served = collections.Counter()
        for k in corpus(nkeys):
            net.call += 1
            e0 = len(net.events)
            try:
                c.get(k)
            except Exception as e:
                P.append(("routing-raises", f"after {what} get({k!r}) raised {type(e).__name__}: {e}"))
                break
            t = {net.socks[e[3]].addr for e in net.events[e0:] if e[2] in ("connect", "connect_fail", "sendall") and e[3] >= 0}
            if len(t) != 1:
                P.append(("not-exactly-one-node", f"after {what} get({k!r}) contacted {sorted(t)}"))
                break
            served[next(iter(t))] += 1
        foreign = sorted({net.socks[e[3]].addr for e in net.events[ev0:]
                          if e[2] in ("connect", "connect_fail", "sendall") and e[3] >= 0} - ok_addrs)
        if foreign:
            P.append(("stale-node-contacted", f"after {what} keys were sent to {foreign}, which the endpoint does not advertise "
                      f"({sorted(ok_addrs)})"))
        left = sorted({s.addr for s in net.open_sockets() if s.addr is not None} - ok_addrs)
        if left:
            P.append(("connection-to-replaced-node-left-open", f"after {what} sockets to {left} are still open"))
        mine = {id(s) for s in stacks.reachable_socks(c)}
        orphans = sorted({s.addr for s in net.open_sockets() if id(s) not in mine and s.addr is not None} - set(left))
        if orphans:
            P.append(("orphaned-connection-left-open", f"after {what} sockets to {orphans} are open but belong to no client "
                      f"of the rotation (a discarded client object was not closed)"))
        return P


def run_history(L0, use_vpc, delivery, hist, nkeys, cut_step=None, cut=None, traffic=True):
    """Returns (final list or None, [(step, clause, text)]).  traffic=False: no key is routed until the
    last step (clients that never opened a connection exist when a reconfiguration happens)."""
    w = World(L0, use_vpc, delivery, cut if cut_step == 0 else None, traffic=traffic)
    out = []
    if traffic or not hist:
        out = [(0,) + p for p in w.judge(nkeys, f"construction over {len(L0)} node(s)")]
    L = list(L0)
    if w.client is None:
        return L, out
    for i, ev in enumerate(hist, 1):
        L2 = apply_event(L, ev)
        if L2 is None:
            return None, out
        L = L2
        if ev == "blip_first":
            w.blip(nkeys)
            continue  # judged again after the next reconfiguration
        if ev == "backoff_first":
            w.backoff(nkeys)
            continue
        w.reconfigure(L, cut if cut_step == i else None)
        if traffic or i == len(hist):
            out += [(i,) + p for p in w.judge(nkeys, f"reconfigure_nodes() #{i} ({ev}: now {len(L)} node(s), config version {w.version})")]
    return L, out


def reply_len(L, version):
    body = str(version).encode() + b"\n" + b" ".join(f"{h}|{ip}|{p}".encode() for h, ip, p in L) + b"\n"
    return len(b"CONFIG cluster 0 " + str(len(body)).encode() + b"\r\n" + body + b"\r\nEND\r\n")


def _worker(job, chk):
    kind, use_vpc, delivery, n0, tier = job
    nkeys = 60 if tier == "quick" else 500
    depth = 2 if tier == "quick" else 3
    L0 = UNIVERSE[:n0]
    if kind == "bfs":
        seen = {tuple(L0)}
        frontier = collections.deque([()])
        transitions = 0
        while frontier:
            hist = frontier.popleft()
            for ev in events_for(delivery) if len(hist) < depth else ():
                h2 = hist + (ev,)
                if h2[-1] in ("blip_first", "backoff_first") and len(h2) >= depth:
                    continue  # a blip is only interesting when a reconfiguration follows
                L, probs = run_history(L0, use_vpc, delivery, h2, nkeys)
                if L is None:
                    continue
                if delivery.startswith("whole") and "blip_first" not in h2:
                    L_, p2 = run_history(L0, use_vpc, delivery, h2, nkeys, traffic=False)
                    chk.add()
                    _report(chk, p2, use_vpc, delivery + "/no-traffic-before", n0, h2, None, None)
                transitions += 1
                chk.add()
                chk.outcome((use_vpc, delivery, n0, h2))
                _report(chk, probs, use_vpc, delivery, n0, h2, None, None)
                # histories, not only states: stale bookkeeping depends on the path taken
                frontier.append(h2)
                seen.add(tuple(L))
        L, probs = run_history(L0, use_vpc, delivery, (), nkeys)
        chk.add()
        _report(chk, probs, use_vpc, delivery, n0, (), None, None)
        chk.count("states", len(seen))
        chk.count("transitions", transitions)
        chk.count("traces_validated_against_impl", transitions + 1)
        if n0 == 3 and use_vpc and delivery == "whole":
            chk.sample({"initial_nodes": [list(n) for n in L0], "use_vpc": use_vpc, "history": ["up", "down_first"],
                        "advertised_after": [list(n) for n in apply_event(apply_event(L0, "up"), "down_first")]})
    elif kind == "cuts":
        # every single cut position of the config reply: at construction and at the first reconfiguration
        for step, hist in ((0, ()), (1, ("up",)), (1, ("down_last",))):
            L = L0
            for ev in hist:
                L = apply_event(L, ev)
            if L is None:
                continue
            n = reply_len(L, 9 + step)
            for cut in range(1, n):
                L_, probs = run_history(L0, use_vpc, "whole", hist, 10, cut_step=step, cut=cut)
                chk.add()
                chk.outcome((use_vpc, "cut", n0, hist, cut))
                _report(chk, probs, use_vpc, "cut", n0, hist, step, cut)
            chk.count("cut_positions", n - 1)
    elif kind == "dns":
        # a node replacement that keeps the host name: the name resolves to a new address and the endpoint
        # advertises that address; with use_vpc=False the client connects by name and must reach the new machine
        import socket as _rs
        for pooled in (False, True):
            net = stacks.new_net(None, servers=())
            name, port = "my-cache-7.abcxyz.0001.use1.cache.amazonaws.com", 11211
            old_ip, new_ip = "10.0.9.1", "10.0.9.2"
            ep = net.add_server(EP_HOST, int(EP_PORT), cluster=(3, [(name, old_ip, port)]))
            net.add_server(old_ip, port)
            net.add_server(new_ip, port)
            net.hosts[name] = [(_rs.AF_INET, old_ip)]
            kw = {"use_pooling": True, "max_pool_size": 2} if pooled else {}
            c = AWSElastiCacheHashClient(ENDPOINT, socket_module=net.module(), use_vpc=use_vpc, default_noreply=False,
                                         connect_timeout=1, timeout=1, **kw)

            def contacted():
                e0 = len(net.events)
                net.call += 1
                try:
                    c.get("some-key")
                    exc = None
                except Exception as e:  # noqa
                    exc = e
                return sorted({net.socks[e[3]].addr for e in net.events[e0:] if e[2] in ("connect", "connect_fail", "sendall") and e[3] >= 0}), exc

            first, exc1 = contacted()
            net.hosts[name] = [(_rs.AF_INET, new_ip)]
            ep.cluster = (4, [(name, new_ip, port)])
            net.call += 1
            c.reconfigure_nodes()
            second, exc2 = contacted()
            chk.add()
            chk.outcome(("dns", use_vpc, pooled, tuple(first), tuple(second)))
            if first != [("tcp", old_ip, port)] or second != [("tcp", new_ip, port)] or exc1 or exc2:
                chk.violation(f"node-replaced-under-the-same-name|use_vpc={use_vpc}",
                              f"AWSElastiCacheHashClient(use_vpc={use_vpc}{', use_pooling=True' if pooled else ''}): node {name} is first at "
                              f"{old_ip} (get contacted {first}{', raised %r' % exc1 if exc1 else ''}), then replaced: the name resolves to "
                              f"{new_ip} and the endpoint advertises {name}|{new_ip}|{port}; after reconfigure_nodes() get contacted "
                              f"{second}{', raised %r' % exc2 if exc2 else ''}, expected [('tcp', '{new_ip}', {port})]",
                              {"kind": "dns", "use_vpc": use_vpc, "n0": n0})
    elif kind == "error":
        # an endpoint that answers ERROR (and then either stays silent or hangs up): the constructor and
        # reconfigure_nodes() must fail with a memcached error
        for hangup in (False, True):
            tag = "error-endpoint-hangs-up" if hangup else "error-endpoint"
            net = stacks.new_net(None, servers=())
            net.add_server(EP_HOST, int(EP_PORT), cluster=None)
            for srv in net.servers.values():
                srv.hangs_up_after_error = hangup
            chk.add()
            try:
                AWSElastiCacheHashClient(ENDPOINT, socket_module=net.module(), use_vpc=use_vpc, connect_timeout=1, timeout=1)
                res, et = "returned normally", "no-error"
            except MemcacheError:
                res = None
            except Exception as e:
                et = type(e).__name__
                res = f"raised {type(e).__name__}: {e}" + (" after waiting for bytes that never come" if net.blocked else "")
            if res:
                chk.violation(f"{tag}|constructor|{et}", f"endpoint answers ERROR to 'config get cluster'"
                              f"{' and closes the connection' if hangup else ''}: the constructor {res} "
                              f"instead of raising the memcached error", {"kind": "error", "use_vpc": use_vpc, "n0": n0})
            w = World(L0, use_vpc, "whole")
            w.ep.cluster = None
            w.ep.hangs_up_after_error = hangup
            w._exchange(lambda: w.client.reconfigure_nodes(), None)
            chk.add()
            if not isinstance(w.exc, MemcacheError):
                et = "no-error" if w.exc is None else type(w.exc).__name__
                chk.violation(f"{tag}|reconfigure_nodes|{et}", f"endpoint answers ERROR"
                              f"{' and closes the connection' if hangup else ''}: reconfigure_nodes() "
                              f"{'returned normally' if w.exc is None else 'raised ' + type(w.exc).__name__ + ': ' + str(w.exc)}"
                              f"{' after waiting for bytes that never come' if w.blocked else ''} instead of raising the memcached error",
                              {"kind": "error", "use_vpc": use_vpc, "n0": n0})


def _report(chk, probs, use_vpc, delivery, n0, hist, cut_step, cut):
    for step, clause, text in probs:
        ev = hist[step - 1] if step else "construction"
        sig = f"{clause}|{ev}|use_vpc={use_vpc}|delivery={delivery if cut is None else 'single-cut'}"
        chk.violation(sig, f"AWSElastiCacheHashClient(use_vpc={use_vpc}), {n0} initial node(s), history {list(hist)}"
                      f"{'' if cut is None else f', config reply #{cut_step} cut after {cut} bytes'}"
                      f"{', byte-wise delivery' if delivery == 'byte' else ''}: {text}",
                      {"kind": "history", "use_vpc": use_vpc, "delivery": (delivery if cut is None else "whole").split("/")[0],
                       "traffic": "no-traffic" not in delivery, "n0": n0,
                       "history": list(hist), "cut_step": cut_step, "cut": cut})


def run(chk):
    chk.rule = RULE
    chk.assumptions = ["the reference server's `config get cluster` reply format (CONFIG cluster 0 <len> / version / nodes / END) follows the AWS auto-discovery documentation",
                       "every node is reachable both by its advertised IP and by its host name"]
    jobs = []
    for use_vpc in (True, False):
        for n0 in range(1, 7):
            for delivery in ("whole", "byte", "whole+tls", "whole+pooled", "whole+pooled+ra1", "whole+ra1", "whole+v1", "whole+dbg"):
                if "+" in delivery and n0 not in ((2, 3) if "+v1" not in delivery else (2, 3, 5)):
                    continue
                jobs.append(("bfs", use_vpc, delivery, n0, chk.tier))
        for n0 in ((1, 3) if chk.tier == "quick" else (1, 2, 3, 6)):
            jobs.append(("cuts", use_vpc, "whole", n0, chk.tier))
        jobs.append(("error", use_vpc, "whole", 2, chk.tier))
        jobs.append(("dns", use_vpc, "whole", 2, chk.tier))
    runner.parallel(chk, _worker, jobs)


def replay(detail):
    if detail["kind"] in ("error", "dns"):
        tmp = runner.Check(PROPERTY, LEVEL, "quick", 0)
        _worker((detail["kind"], detail["use_vpc"], "whole", detail["n0"], "quick"), tmp)
        return [v["what"] for v in tmp.violations.values()]
    L, probs = run_history(UNIVERSE[: detail["n0"]], detail["use_vpc"], detail["delivery"], tuple(detail["history"]), 60,
                           detail.get("cut_step"), detail.get("cut"), traffic=detail.get("traffic", True))
    return [t for _, _, t in probs]
