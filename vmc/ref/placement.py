"""Independent reference for key placement: MurmurHash3 x86_32 over bytes (struct-based, masked
after every operation) and the published rendezvous rule (highest score of '<node>-<key>', ties
to the greatest node name).  Shares no code with pymemcache."""

from __future__ import annotations

import struct

M32 = 0xFFFFFFFF


def _rotl(x, r):
    return ((x << r) | (x >> (32 - r))) & M32


def murmur3_bytes(data: bytes, seed: int = 0) -> int:
    c1, c2 = 0xCC9E2D51, 0x1B873593
    h = seed & M32
    n = len(data)
    nblocks = n // 4
    for (k,) in struct.iter_unpack("<I", data[: nblocks * 4]):
        k = (k * c1) & M32
        k = _rotl(k, 15)
        k = (k * c2) & M32
        h ^= k
        h = _rotl(h, 13)
        h = (h * 5 + 0xE6546B64) & M32
    tail = data[nblocks * 4:]
    k = 0
    if len(tail) == 3:
        k ^= tail[2] << 16
    if len(tail) >= 2:
        k ^= tail[1] << 8
    if len(tail) >= 1:
        k ^= tail[0]
        k = (k * c1) & M32
        k = _rotl(k, 15)
        k = (k * c2) & M32
        h ^= k
    h ^= n
    h ^= h >> 16
    h = (h * 0x85EBCA6B) & M32
    h ^= h >> 13
    h = (h * 0xC2B2AE35) & M32
    h ^= h >> 16
    return h


def murmur3_text(s: str, seed: int = 0) -> int:
    """The library hashes a str whose code points are taken as bytes (defined for code points 0..255)."""
    return murmur3_bytes(bytes(ord(c) & 0xFF for c in s), seed)


def rendezvous(nodes, key, seed=0, hashfn=None):
    """The published rule: the node with the highest score of '<node>-<key>'; ties to the greatest name."""
    best = None
    for node in nodes:
        text = f"{node}-{key}"
        score = hashfn(text) if hashfn is not None else murmur3_text(text, seed)
        cand = (score, str(node))
        if best is None or cand > best[0]:
            best = (cand, node)
    return None if best is None else best[1]
