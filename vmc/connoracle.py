"""Reply-ownership oracle shared by C01 and C10: run a short sequence of public calls
on one client stack over simnet under a fault plan, and judge every execution."""

from __future__ import annotations

from vmc import ops as _ops
from vmc import simnet, stacks

BENIGN = ("eintr", "short1", "cut_cr", "slow", "slow2")


def short(v, n=60):
    r = repr(v)
    return r if len(r) <= n else r[: n - 3] + "..."


def run_sequence(ch, stack, dn, seq, menu, trunc="quick", cfg=None, between=None, delivery="whole"):
    """Returns (net, obj, rec) ; rec[i] = dict(kind='ret'|'exc'|'base', value, leftovers, used, p0, p1)."""
    net = stacks.new_net(ch, menu=menu, trunc=trunc, delivery=delivery)
    _ops.preload(net)
    kw = dict(default_noreply=dn, connect_timeout=3, timeout=7)
    if cfg:
        kw.update(cfg)
    obj = stacks.build(stack, net, **kw)
    rec = []
    for i, op in enumerate(seq, 1):
        net.call = i
        p0 = len(ch.choices) if ch is not None else 0
        try:
            r = {"kind": "ret", "value": op.call(obj)}
        except Exception as e:
            r = {"kind": "exc", "value": e}
        except BaseException as e:
            r = {"kind": "base", "value": e}
        r["p0"] = p0
        r["p1"] = len(ch.choices) if ch is not None else 0
        left = []
        for s in stacks.reachable_socks(obj):
            if s.state == "connected" and s.conn is not None:
                if s.conn.available() or s.conn.stalled:
                    left.append((s.sid, s.conn.peek(40), s.conn.stalled))
        r["leftovers"] = left
        r["used"] = sum(len(p._used_objs) for p in stacks.pools(obj))
        rec.append(r)
        if between is not None:
            between(net, obj, i)
    net.call = 0
    return net, obj, rec


_BASELINES = {}


def baseline_kinds(stack, dn, seq, cfg, delivery):
    """Result kind of each call of the sequence in a faultless environment (cached per process)."""
    key = (stack, dn, tuple(o.label for o in seq), repr(sorted((cfg or {}).items())), delivery)
    b = _BASELINES.get(key)
    if b is None:
        net, obj, rec = run_sequence(None, stack, dn, seq, {}, cfg=cfg, delivery=delivery)
        b = [(r["kind"], type(r["value"]).__name__) for r in rec]
        if len(_BASELINES) > 20000:
            _BASELINES.clear()
        _BASELINES[key] = b
    return b


def judge(ch, net, obj, rec, stack, dn, seq, check_values=True, base=None):
    """Yields (clause, call_index, text) for every oracle clause violated in this execution."""
    out = []
    # (i) every byte read during call n answers call n
    for ev in net.events:
        if ev[2] == "recv" and ev[5]:
            call = ev[1]
            if any(t != call for t in ev[5]):
                out.append((
                    "stale-reply", call,
                    f"call {call} ({seq[call-1].label}) read bytes that answer call(s) "
                    f"{sorted(set(ev[5]) - {call})}"))
                break
    # (ii) nothing unread on a connection that stays in use
    for i, r in enumerate(rec, 1):
        if r["leftovers"]:
            sid, data, stalled = r["leftovers"][0]
            out.append((
                "reply-left-unread", i,
                f"after call {i} ({seq[i-1].label}) socket {sid} stays in use with "
                + (f"unread reply bytes {data!r}" if data else "a truncated reply pending")))
            break
    # (iii) no read that can never complete
    if net.blocked:
        call, sid = net.blocked[0]
        out.append((
            "blocks-forever", call,
            f"call {call} ({seq[call-1].label if call else '?'}) waits on socket {sid} for a reply "
            f"the server will never send"))
    # (iv) value computed from this call's own outcomes
    if check_values:
        labels = ch.labels if ch is not None else []
        hard_before = False
        for i, r in enumerate(rec, 1):
            mine = [l for (pi, k, l) in labels if r["p0"] <= pi < r["p1"]]
            hard = [l for l in mine if l not in BENIGN]
            if r["kind"] == "ret" and not hard and not (hard_before and stack.startswith("hash")):
                op = seq[i - 1]
                outcomes = []
                for srv in net.servers.values():
                    outcomes += [e[3] for e in srv.log if e[0] == i]
                if not outcomes and op.name not in ("delete_many", "get_many", "gets_many", "set_many", "quit", "close") \
                        and not stack.startswith("hash"):
                    # a call that returned normally without any command reaching a server: its result cannot be
                    # the answer to its own request
                    out.append(("no-request-sent", i, f"call {i} ({op.label}) returned {short(r['value'])} although no command "
                                f"of this call reached the server"))
                if outcomes or op.name in ("delete_many", "get_many", "gets_many"):
                    try:
                        exp = _ops.expected(op, outcomes, dn, obj)
                    except Exception:  # outcomes no healthy exchange produces (a mutant's stale or foreign replies)
                        exp = None
                        out.append(("wrong-value", i, f"call {i} ({op.label}) returned {short(r['value'])} "
                                    f"although the server's outcomes were {short(outcomes)}"))
                    else:
                        got = r["value"]
                        if isinstance(exp, _ops.Unknown):
                            ok = isinstance(got, exp.typ)
                        else:
                            ok = got == exp and type(got) is type(exp)
                        if not ok:
                            out.append(("wrong-value", i,
                                        f"call {i} ({op.label}) returned {short(got)}, the server's own "
                                        f"outcomes {short(outcomes)} mean {short(exp if not isinstance(exp, _ops.Unknown) else exp.typ)}"))
            # (v) a call during which nothing went wrong does not fail because of an earlier call's fate
            if base is not None and not mine and r["kind"] == "exc" and base[i - 1][0] == "ret" \
                    and not (hard_before and stack.startswith("hash")):
                out.append(("fails-without-fault", i,
                            f"call {i} ({seq[i-1].label}) raised {r['value']!r} although nothing went wrong during it "
                            f"(it succeeds in a faultless run); earlier deviations: {devsig(ch)}"))
            if hard:
                hard_before = True
    return out


def devsig(ch):
    if ch is None:
        return "none"
    return "+".join(
        f"{k}:{l if isinstance(l, str) else l[0]}" for (_, k, l) in ch.labels) or "none"


def result_class(rec):
    return tuple(
        (r["kind"], type(r["value"]).__name__ if r["kind"] != "ret" else type(r["value"]).__name__)
        for r in rec)
