"""C01 - a call only ever consumes the server's reply to its own request.

Engine E1 (fault enumeration on the real code).  For every client stack, both
default_noreply settings and every sequence op1;op2 (thorough: also op3 from a
small probe set) over the full operation alphabet, enumerate every fault plan
with <= bound deviations at any socket call / any reply of any call, and judge
every execution with the reply-ownership oracle (vmc/connoracle.py).
"""

from __future__ import annotations

from vmc import connoracle, explore, ops, runner, simnet

PROPERTY = "C01"
LEVEL = "fault_enumeration"
STACKS = ("client", "pooled", "hash1", "hash2", "hash2p")
RULE = (
    "executions = (stack x default_noreply x op1;op2[;op3] x fault plan with <= bound deviations); "
    "an execution is non-trivial when at least one deviation took effect; distinct = distinct "
    "(stack, op names, deviation kinds, per-call result kinds)"
)


FETCH_OPS = ("get", "gets", "gat", "gats", "get_many", "gets_many", "stats")


# the same item named twice in one multi-key call (str and bytes spelling): as many replies as commands
EXTRA = [
    ops.Op("set_many", {"a": b"1", b"a": b"2"}, noreply=False),
    ops.Op("delete_many", ["a", b"a"], noreply=False),
    ops.Op("get_many", ["a", b"a", "b"]),
    # shutdown's other form (the reference server has the command disabled and answers with an error line)
    ops.Op("shutdown", graceful=True),
    # a cas token that is not a number must not reach the wire (it would change how many replies come back)
    ops.Op("cas", "a", b"9", b"1 noreply", noreply=False),
    ops.Op("cas", "a", b"9", b"12\r\n", noreply=True),
    # flush_all with a delay, under both reply modes (the order of its optional words matters to the server)
    ops.Op("flush_all", 30),
    ops.Op("flush_all", delay=30, noreply=False),
    # noreply=None given explicitly means "use the default", exactly like leaving it out
    ops.Op("incr", "a", 2, noreply=None),
    ops.Op("decr", "a", 1, noreply=None),
    ops.Op("delete", "a", noreply=None),
    ops.Op("touch", "b", 100, noreply=None),
    ops.Op("set", "a", b"7", noreply=None),
    # the same key-less call twice: each one asks the server again
    ops.Op("version"),
]


def _alphabet():
    return ops.alphabet() + EXTRA


def _probes(alpha):
    want = ("set('a',b'7',noreply=False)", "get('a')", "gets_many(['b','a'])", "delete('a')")
    return [o for o in alpha if o.label.replace(" ", "") in want]


def _jobs(tier):
    alpha = _alphabet()
    jobs = []
    deliveries = ("whole", "segment") if tier == "quick" else ("whole", "segment", "byte")
    for stack in STACKS:
        for dn in (True, False):
            for dl in deliveries:
                for i1 in range(len(alpha)):
                    jobs.append((stack, dn, i1, tier, dl, False))
                    # ignore_exc only changes the fetch path of Client/PooledClient, and every
                    # path of HashClient
                    if stack.startswith("hash") or alpha[i1].name in FETCH_OPS:
                        jobs.append((stack, dn, i1, tier, dl, True))
    return jobs


def _seqs(stack, i1, tier, alpha, obj_cls_has, delivery):
    """(sequence, deviation bound, truncation positions)"""
    op1 = alpha[i1]
    if not obj_cls_has(op1):
        return
    seconds = [o for o in alpha if obj_cls_has(o)]
    if tier == "quick":
        for op2 in seconds:
            yield (op1, op2), 1, "quick"
        return
    probes = [o for o in _probes(alpha) if obj_cls_has(o)]
    # A: every op1;op2, one deviation, a reply truncated at EVERY byte position
    for op2 in seconds:
        yield (op1, op2), 1, "all"
    if delivery == "byte":
        return
    # B: op1;probe, two deviations
    for op2 in probes:
        yield (op1, op2), 2, "quick"
    # C: op1;op2;probe, one deviation
    for op2 in seconds:
        for op3 in probes:
            yield (op1, op2, op3), 1, "quick"


def _stack_class(stack):
    from pymemcache.client.base import Client, PooledClient
    from pymemcache.client.hash import HashClient

    return {"client": Client, "pooled": PooledClient}.get(stack, HashClient)


def _worker(job, chk):
    stack, dn, i1, tier, delivery, ignore_exc = job
    cfg = {"ignore_exc": True} if ignore_exc else None
    alpha = _alphabet()
    cls = _stack_class(stack)
    has = lambda op: hasattr(cls, op.name)  # noqa
    menu = simnet.MENU_CONN
    for seq, b, trunc in _seqs(stack, i1, tier, alpha, has, delivery):
        bound = b

        def run(ch, seq=seq, trunc=trunc):
            return connoracle.run_sequence(ch, stack, dn, seq, menu, trunc, cfg=cfg, delivery=delivery)

        def on_exec(ch, res, seq=seq, trunc=trunc):
            net, obj, rec = res
            chk.add()
            if ch.labels:
                chk.outcome((stack, tuple(o.name for o in seq), connoracle.devsig(ch),
                             connoracle.result_class(rec)))
                if i1 == 6 and dn and len(ch.labels) == bound and len(chk.samples) < 1:
                    chk.sample({"stack": stack, "default_noreply": dn, "delivery": delivery,
                                "sequence": [o.label for o in seq], "fault_plan": ch.plan(),
                                "results": [(r["kind"], connoracle.short(r["value"])) for r in rec]})
            bad = connoracle.judge(ch, net, obj, rec, stack, dn, seq,
                                   base=connoracle.baseline_kinds(stack, dn, seq, cfg, delivery))
            if bad:
                _report(chk, bad, ch, stack + ("+ignore_exc" if ignore_exc else ""), dn, delivery, seq, run, net, trunc)

        n = explore.explore(run, b, on_exec)
        chk.count("sequences")
        chk.maximum("max_points_per_execution", 0)


def _report(chk, bad, ch, stack, dn, delivery, seq, run, net, trunc="quick"):
    clause, call, text = bad[0]
    sig = f"{clause}|{stack}|{seq[call-1].name if call else '?'}|{connoracle.devsig(ch)}|{delivery}"
    if sig not in chk.violations:
        # determinism: the same choice sequence must give the same event log twice
        ch2, res2 = explore.replay(run, ch.choices)
        ch3, res3 = explore.replay(run, ch.choices)
        if res2[0].events != net.events or res3[0].events != net.events:
            raise runner.HarnessError("harness nondeterminism: same choices, different event logs")
    chk.violation(sig, text, {
        "stack": stack, "default_noreply": dn, "delivery": delivery, "sequence": [o.label for o in seq],
        "choices": list(ch.choices), "plan": ch.plan(), "all": [b[2] for b in bad],
        "trunc": trunc,
    })


def run(chk):
    chk.rule = RULE
    chk.assumptions = [
        "ModelServer (vmc/modelserver.py) is faithful to memcached's text protocol",
        "sendall delivers all bytes or none; a garbage deviation replaces one reply by one line",
        "fault plans with more deviations than the completed bound are not explored",
    ]
    chk.info["deviation_bound_completed"] = (
        "1 over every op1;op2" if chk.tier == "quick" else
        "1 over every op1;op2 with truncation at every byte (3 delivery modes); 2 over op1;probe; 1 over op1;op2;probe")
    chk.info["stacks"] = list(STACKS)
    runner.parallel(chk, _worker, _jobs(chk.tier), chunksize=1)


def replay(detail):
    alpha = {o.label: o for o in _alphabet()}
    seq = [alpha[l] for l in detail["sequence"]]
    stack, dn = detail["stack"], detail["default_noreply"]
    cfg = None
    if stack.endswith("+ignore_exc"):
        stack, cfg = stack[: -len("+ignore_exc")], {"ignore_exc": True}

    def run(ch):
        return connoracle.run_sequence(ch, stack, dn, seq, simnet.MENU_CONN, detail.get("trunc", "quick"), cfg=cfg,
                                       delivery=detail.get("delivery", "whole"))

    ch, (net, obj, rec) = explore.replay(run, detail["choices"])
    for ev in net.events:
        print("   ", ev)
    for i, r in enumerate(rec, 1):
        print(f"    call {i} {seq[i-1].label}: {r['kind']} {connoracle.short(r['value'])}")
    return [b[2] for b in connoracle.judge(ch, net, obj, rec, stack, dn, seq)]
