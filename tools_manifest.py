#!/venv/bin/python
"""Regenerates MANIFEST.json from the table below (keeps it valid at all times)."""
import json, os, subprocess, sys

HERE = os.path.dirname(os.path.abspath(__file__))
sys.path.insert(0, HERE)
from manifest_table import CHECKS, NOT_APPLICABLE, ENGINES, NOTES  # noqa

def main():
    props = [json.loads(l) for l in open(os.path.join(HERE, "properties.jsonl"))]
    ids = [p["id"] for p in props]
    checks = []
    for pid in ids:
        c = CHECKS.get(pid)
        if c is None:
            continue
        checks.append({
            "property_id": pid,
            "quick_cmd": f"bin/check {pid} quick",
            "thorough_cmd": f"bin/check {pid} thorough",
            "evidence_file": f"/verif/evidence/{pid}.json",
            "replay_cmd_template": f"bin/check {pid} --replay {{path}}",
            "engine": c["engine"],
            "level_claimed": {"category": c["level"], "text": c["text"], "design_ref": c["design_ref"]},
            "level_note": c["note"],
            "technique": c["technique"],
        })
    na = [{"property_id": pid, "reason": NOT_APPLICABLE[pid]} for pid in ids if pid not in CHECKS]
    man = {
        "version": 1,
        "setup_cmd": "sh bin/setup",
        "hooks": {
            "guard": "PYMEMCACHE_VERIF",
            "enable": "no source hooks exist: every seam (socket_module, tls_context, lock_generator, client_class, module attributes time/sleep) is already in pymemcache; checks import the working tree of /repo directly",
            "baseline_off_cmd": "cd /repo && /venv/bin/python -m pytest -ra -q -p no:cacheprovider --timeout=900 --continue-on-collection-errors",
            "source_commits": [],
            "add_only": True,
        },
        "engines": ENGINES,
        "checks": checks,
        "not_applicable": na,
        "notes": NOTES,
    }
    with open(os.path.join(HERE, "MANIFEST.json"), "w") as f:
        json.dump(man, f, indent=1)
        f.write("\n")
    print(f"MANIFEST.json: {len(checks)} checks, {len(na)} not_applicable")

main()
