"""C04 - what is stored is what is fetched: values and keys survive the round trip.

Bounded-exhaustive enumeration of round trips of the real client against the reference server:
(D1) values x serializers x store verbs x fetch operations x delivery modes;
(D2) keys x prefixes x unicode flag x multi-key fetches x key-collection types (list, tuple, set,
     dict view, one-shot iterator, lists with repeated keys).
Oracle: bytes come back bit-for-bit; serializer values equal with exactly the same type; without
a serializer str/int come back as their encoded text; a multi-key fetch returns every present
requested key exactly once under the caller's own key object and never another key's value; the
prefix is on the wire and never in the result.
"""

from __future__ import annotations

import hashlib
import itertools

from pymemcache import serde as _serde
from pymemcache.client.base import Client

from vmc import runner, stacks

PROPERTY = "C04"
LEVEL = "exploration"
RULE = (
    "cases = (D1) value x serde x store verb x fetch op x delivery; (D2) key set x prefix x allow_unicode_keys x "
    "fetch op x collection type; each case = fresh reference server + fresh Client, store then fetch; non-trivial = "
    "value contains protocol text / is falsy / straddles a size boundary / needs a serializer, or the key set has "
    ">= 2 keys; distinct = distinct (dimension, value or key class, serde, verbs, delivery)"
)
H1 = stacks.H1
STACK_NAMES = {"client": "Client", "pooled": "PooledClient", "hash1": "HashClient([h1])"}
STORES = ("set", "add", "replace", "cas", "set_many")
FETCHES = ("get", "gets", "gat", "gats", "gat0", "gats0", "get_many", "gets_many")  # gat0/gats0: expire left at its default


def incompressible(n):
    out = b""
    h = b"seed"
    while len(out) < n:
        h = hashlib.sha256(h).digest()
        out += h
    return out[:n]


class FlagSerde:
    """A custom serializer that relies on the flags travelling with the item."""

    def serialize(self, key, value):
        if isinstance(value, bytes):
            return value, 0
        if isinstance(value, str):
            return value.encode("utf8"), 1
        if isinstance(value, bool):
            return (b"T" if value else b"F"), 4
        if isinstance(value, int):
            return str(value).encode(), 2
        if isinstance(value, float):
            return repr(value).encode(), 1 << 20  # the flags field is 32 bits wide: only a high bit set
        return repr(value).encode(), 8

    def deserialize(self, key, value, flags):
        if flags == 0:
            return value
        if flags == 1:
            return value.decode("utf8")
        if flags == 2:
            return int(value)
        if flags == 4:
            return value == b"T"
        if flags == 1 << 20:
            return float(value)
        if flags != 8:
            raise ValueError(f"flags {flags} were never written by this serializer")
        return eval(value.decode())


class ReprSerde:
    """A serializer that does not use the flags at all: everything is stored as its repr, flags 0."""

    def serialize(self, key, value):
        return repr(value).encode("utf8"), 0

    def deserialize(self, key, value, flags):
        return eval(value.decode("utf8"))


def serdes(tier):
    out = [("none", None), ("custom", FlagSerde()), ("repr0", ReprSerde())]
    protos = range(6) if tier == "thorough" else (0, 2, 5)
    out += [(f"pickle{p}", _serde.PickleSerde(pickle_version=p)) for p in protos]
    out.append(("compressed", _serde.CompressedSerde()))
    out.append(("compressed-min1", _serde.CompressedSerde(min_compress_len=1)))
    return out


def byte_values(tier):
    alpha = [b"\r", b"\n", b"E", b" ", b"\x00", b"\xff"]
    vals = [b""]
    for n in (1, 2, 3):
        for t in itertools.product(alpha, repeat=n):
            vals.append(b"".join(t))
    vals += [b"END\r\n", b"VALUE k 0 1\r\nx\r\nEND\r\n", b"get k\r\n", b"STORED\r\n", b"\r\nEND\r\n", b"0", b" 5 "]
    sizes = [4093, 4094, 4095, 4096, 4097, 4098, 4099, 8190, 8191, 8192, 8193, 8194, 600]
    if tier == "thorough":
        sizes += [1024 * 1024 - 1, 65536, 12288]
    big = bytes((i * 7 + 3) % 251 for i in range(max(sizes) + 1))
    vals += [big[:n] for n in sizes]
    vals.append(incompressible(600))
    vals.append(incompressible(5000))
    return vals


import enum


class MyStr(str):
    pass


class Colour(str, enum.Enum):
    GREEN = "green"


class MyInt(int):
    pass


class MyBytes(bytes):
    pass


ACTIVE = [None]  # the serde of the client whose store call is running


class Reentrant:
    """A picklable value whose __reduce__ serializes something else through the serde that is pickling it."""

    def __init__(self, tag=None):
        self.tag = tag

    def __eq__(self, other):
        return type(other) is Reentrant and other.tag == self.tag

    def __hash__(self):
        return hash(self.tag)

    def __repr__(self):
        return f"Reentrant({self.tag!r})"

    def __reduce__(self):
        s = ACTIVE[0]
        if s is not None:
            ACTIVE[0] = None
            try:
                s.serialize(b"nested", ["inner", 1, b"x" * 50])
            finally:
                ACTIVE[0] = s
        return (Reentrant, (self.tag,))


def object_values():
    leaves = [None, True, False, 0, 1, -1, 2**70, -(2**70), 1.5, "", "text", "é\r\n", b"", b"\r\n", b"x" * 500, "y" * 500,
              "\ufeffbom first", "\ufeff", "a\u0300", Reentrant("r")]
    out = list(leaves)
    out += [[], (), {}, set(), [0], (False,), {"k": None}, {1, 2}, [b"", ""], {"a": [1, (2, "é")], "b": b"\xff"},
            ("t", 1, None), [incompressible(450)], frozenset([1]), 10**30,
            MyStr("sub"), Colour.GREEN, MyInt(7), MyBytes(b"raw"), [MyStr("nested")]]
    return out


def text_values():
    return ["", "plain", "with space", "café", "line\r\nbreak", 0, 17, -5, 2**64]


def expected_plain(v, encoding):
    if isinstance(v, bytes):
        return v
    return str(v).encode(encoding)


def klass(v):
    if isinstance(v, bytes):
        if len(v) > 100:
            return f"bytes:{len(v)}"
        return "bytes:" + ("empty" if not v else "crlf" if b"\r\n" in v else "ctl" if any(c < 32 or c > 126 for c in v) else "text")
    return type(v).__name__ + (":falsy" if not v else "")


def round_trip(key, value, serde, store, fetch, delivery, prefix=b"", encoding="ascii", uni=False):
    """Returns ('ok', fetched) or ('exc', text)."""
    net = stacks.new_net(None, servers=(H1,), delivery=delivery)
    kw = {}
    if serde is not None:
        kw["serde"] = serde
    c = Client(H1, socket_module=net.module(), key_prefix=prefix, encoding=encoding, allow_unicode_keys=uni,
               default_noreply=False, **kw)
    net.call = 1
    ACTIVE[0] = serde if hasattr(serde, "serialize") else None
    try:
        if store == "set":
            ok = c.set(key, value)
        elif store == "add":
            ok = c.add(key, value)
        elif store == "replace":
            c.set(key, b"old")
            ok = c.replace(key, value)
        elif store == "cas":
            c.set(key, b"old")
            tok = c.gets(key)[1]
            ok = c.cas(key, value, tok)
        elif store == "set_many":
            ok = c.set_many({key: value, "other-key": b"other"}) == []
        if ok is not True:
            return ("exc", f"{store} returned {ok!r}")
        net.call = 2
        if fetch == "get":
            r = c.get(key)
        elif fetch == "gets":
            r = c.gets(key)[0]
        elif fetch == "gat":
            r = c.gat(key, expire=100)
        elif fetch == "gats":
            r = c.gats(key, expire=100)[0]
        elif fetch == "gat0":
            r = c.gat(key)
        elif fetch == "gats0":
            r = c.gats(key)[0]
        elif fetch == "get_many":
            d = c.get_many([key, "other-key", "absent"])
            r = d.get(key, "<MISSING>")
        elif fetch == "gets_many":
            d = c.gets_many(["absent", key])
            r = d.get(key, ("<MISSING>",))[0]
    except Exception as e:
        ACTIVE[0] = None
        return ("exc", f"{type(e).__name__}: {e}")
    ACTIVE[0] = None
    wire_ok = True
    srv = net.servers[("tcp",) + H1]
    kb = key.encode("utf8") if isinstance(key, str) else key
    if prefix + kb not in srv.items:
        wire_ok = False
    return ("ok", r, wire_ok)


# every fetch verb (and every store verb) is exercised under a key prefix at least once per value
PREFIXED = {("set", "gats"), ("add", "gat"), ("replace", "gets"), ("cas", "get"), ("set_many", "gets_many"), ("cas", "get_many")}


def _w_values(job, chk):
    sname, tier, part = job
    serde = dict(serdes(tier))[sname]
    if sname in ("none",):
        values = [(v, "ascii") for v in byte_values(tier)] + [(v, "utf8") for v in text_values()] + \
                 [(v, "ascii") for v in text_values() if not (isinstance(v, str) and not v.isascii())]
    elif sname in ("custom", "repr0"):
        values = [(v, "ascii") for v in byte_values(tier)[:60] + byte_values(tier)[-20:]] + \
                 [(v, "ascii") for v in ("", "é", 0, 5, True, False, ("t", 1), [1, 2], None, 1.5, -0.25)]
    else:
        values = [(v, "ascii") for v in byte_values(tier)[:40] + byte_values(tier)[-22:]] + [(v, "ascii") for v in object_values()]
    if sname == "repr0":
        # the repr of a large bytes value is several times its size: past the server's item limit, and refused
        values = [(v, e) for v, e in values if not (isinstance(v, (bytes, str)) and len(v) > 200000)]
    if sname.startswith("compressed"):
        # compresses far below the item limit although it is larger than 1 MiB uncompressed
        values.append((b"A" * (2 * 1024 * 1024 + 17), "ascii"))
        values.append(("B" * (1024 * 1024 + 5), "ascii"))
    values = values[part::4]
    for v, enc in values:
        big = isinstance(v, (bytes, str)) and len(v) > 9000
        deliveries = ("whole",) if big else (("whole", "segment", "byte", "lf") if (tier == "thorough" or not isinstance(v, bytes) or len(v) < 64 or len(v) in (4096, 8192)) else ("whole", "segment"))
        for store in STORES:
            for fetch in FETCHES:
                if big and (store, fetch) not in (("set", "get"), ("set_many", "get_many"), ("cas", "gets")):
                    continue
                for dl in deliveries:
                    if dl == "byte" and big:
                        continue
                    res = round_trip("k", v, serde, store, fetch, dl, encoding=enc,
                                     prefix=b"ns:" if (store, fetch) in PREFIXED else b"")
                    chk.add()
                    chk.outcome(("value", klass(v), sname, store, fetch, dl))
                    want = v if serde is not None else expected_plain(v, enc)
                    bad = None
                    if res[0] == "exc":
                        bad = ("round-trip-raises", res[1])
                    else:
                        got = res[1]
                        if not (got == want and type(got) is type(want)):
                            bad = ("value-changed", f"fetched {short(got)} (type {type(got).__name__}), stored {short(v)} "
                                   f"(expected {short(want)} of type {type(want).__name__})")
                    if bad:
                        chk.violation(f"{bad[0]}|{sname}|{store}->{fetch}|{klass(v)}|{dl}",
                                      f"serde={sname} encoding={enc} delivery={dl}: {store}('k', {short(v)}) then {fetch}: {bad[1]}",
                                      {"dim": "value", "serde": sname, "tier": tier, "store": store, "fetch": fetch, "delivery": dl,
                                       "encoding": enc, "value": repr(v) if not (isinstance(v, bytes) and len(v) > 200) else f"LEN{len(v)}:{klass(v)}"})
    if sname == "pickle5" and part == 0:
        chk.sample({"dim": "value", "serde": sname, "value": repr(object_values()[-5]), "store": "cas", "fetch": "gets_many", "delivery": "byte"})


def short(v, n=70):
    r = repr(v)
    return r if len(r) <= n else r[: n - 12] + f"...<{len(r)} chars>"


def key_universe(uni, prefix):
    room = 250 - len(prefix)
    keys = ["a", b"a2", "b" * room, b"c" * room, "k:1", b"\x01\x7f", "E", "END", b"VALUE"]
    if uni:
        keys += ["é", "€" * (room // 3), "snow☃man"]
    if prefix and len(prefix) < 100:
        # a caller's key may itself begin with the prefix bytes: it is a different key from the one without them
        keys += [b"user", prefix + b"user", prefix.decode("latin-1") if prefix.isascii() else prefix]
        keys += [""]  # with a prefix the empty key is a key like any other (it is the prefix on the wire)
    return keys


def collections_of(keys):
    """(name, factory) - each factory returns a fresh collection object (iterators are one-shot)."""
    ks = list(keys)
    out = [
        ("list", lambda: list(ks)),
        ("tuple", lambda: tuple(ks)),
        ("dictview", lambda: {k: 1 for k in ks}.keys()),
        ("iterator", lambda: iter(list(ks))),
        ("generator", lambda: (k for k in ks)),
    ]
    if len(set(ks)) == len(ks):
        out.append(("set", lambda: set(ks)))
    return out


def _w_keys(job, chk):
    prefix, uni, tier = job[:3]
    stack = job[3] if len(job) > 3 else "client"
    universe = key_universe(uni, prefix)
    subsets = []
    for n in (1, 2, 3):
        subsets += list(itertools.combinations(universe, n))
    subsets.append(tuple(universe))
    # repeated keys: the same key twice before / after other keys
    a, b, c3 = universe[0], universe[1], universe[4]
    subsets += [(a, a), (a, a, b), (a, b, a), (a, a, b, c3), (b, a, a, c3), (a, b, b, c3, c3)]
    if uni:
        # canonically equivalent but different strings are different keys (different bytes on the wire)
        subsets += [("cafe\u0301", "caf\u00e9"), ("caf\u00e9", "cafe\u0301", "a"), ("\u212b", "\u00c5", "A\u030a"),
                    ("\u1e9b\u0323", "\u1e9b\u0323".encode("utf8")[:0] + b"x", "\u017f\u0323\u0307")]
    for keys in subsets:
        present = [k for i, k in enumerate(dict.fromkeys(keys)) if i % 3 != 2 or len(keys) < 3]
        for fetch in ("get_many", "gets_many"):
            for cname, factory in collections_of(keys):
                for dl in (("whole", "segment") if tier == "quick" else ("whole", "segment", "byte")):
                    net = stacks.new_net(None, servers=(H1,), delivery=dl)
                    c = stacks.build(stack, net, key_prefix=prefix, allow_unicode_keys=uni, default_noreply=False)
                    vals = {}
                    try:
                        for k in present:
                            kb = k.encode("utf8") if isinstance(k, str) else k
                            vals[k] = b"value-of-" + kb[:20] + b"-%d" % len(kb)
                            c.set(k, vals[k])
                        r = getattr(c, fetch)(factory())
                        res = ("ok", r)
                    except Exception as e:
                        res = ("exc", f"{type(e).__name__}: {e}")
                    chk.add()
                    if len(keys) >= 2:
                        chk.outcome(("keys", stack, len(prefix), uni, fetch, cname, dl, tuple(map(repr, keys)) if len(keys) <= 4 else len(keys)))
                    bad = None
                    if res[0] == "exc":
                        bad = ("multi-fetch-raises", res[1])
                    else:
                        got = res[1]
                        want = {k: (vals[k] if fetch == "get_many" else vals[k]) for k in present}
                        flat = {k: (v if fetch == "get_many" else v[0]) for k, v in got.items()} if isinstance(got, dict) else got
                        if not isinstance(got, dict):
                            bad = ("multi-fetch-shape", f"returned {short(got)}")
                        elif flat != want:
                            bad = ("multi-fetch-wrong", f"returned {short(flat, 160)}, expected exactly {short(want, 160)}")
                        else:
                            for gk in got:
                                orig = next(k for k in keys if k == gk and type(k) is type(gk)) if any(
                                    k == gk and type(k) is type(gk) for k in keys) else None
                                if orig is None:
                                    bad = ("result-key-not-callers", f"result key {gk!r} is not one of the caller's key objects {keys}")
                        srv = net.servers[("tcp",) + H1]
                        for k in present:
                            kb = k.encode("utf8") if isinstance(k, str) else k
                            if prefix + kb not in srv.items:
                                bad = ("prefix-not-on-wire", f"server holds {sorted(srv.items)[:4]}, expected {prefix + kb!r}")
                    if bad:
                        rep = "repeated" if len(set(keys)) != len(keys) else "distinct"
                        chk.violation(f"{bad[0]}|{fetch}|{cname}|{rep}|{dl}" + ("" if stack == "client" else f"|{stack}"),
                                      f"{STACK_NAMES[stack]}(key_prefix={prefix[:10]!r}[{len(prefix)}], allow_unicode_keys={uni}), delivery {dl}: "
                                      f"{fetch}({cname} of {short(list(keys), 120)}) with {len(present)} present: {bad[1]}",
                                      {"dim": "keys", "stack": stack, "prefix_hex": prefix.hex(), "unicode": uni, "tier": tier, "fetch": fetch,
                                       "collection": cname, "delivery": dl, "keys": [repr(k) for k in keys]})
    if prefix == b"ns:" and uni and stack == "client":
        chk.sample({"dim": "keys", "prefix": "ns:", "keys": [repr(k) for k in universe[:4]], "collection": "generator", "fetch": "gets_many"})


def run(chk):
    chk.rule = RULE
    chk.assumptions = ["ModelServer is a faithful memcached (binary-safe data blocks, 1 MiB item limit)",
                       "one call never mixes the str and the bytes spelling of the same key"]
    jobs = [("values", (s, chk.tier, part)) for s, _ in serdes(chk.tier) for part in range(4)]
    jobs += [("keys", (prefix, uni, chk.tier)) for prefix in (b"", b"ns:", b"p" * 200) for uni in (False, True)]
    # the same key sets and collection types through the classes that wrap a Client (a pool, a one-server HashClient)
    jobs += [("keys", (prefix, uni, chk.tier, stack)) for stack in ("pooled", "hash1")
             for prefix, uni in ((b"", False), (b"ns:", True))]
    runner.parallel(chk, _w_all, jobs)


def _w_all(job, chk):
    kind, arg = job
    (_w_values if kind == "values" else _w_keys)(arg, chk)


def replay(detail):
    tmp = runner.Check(PROPERTY, LEVEL, detail.get("tier", "quick"), 0)
    if detail["dim"] == "value":
        for part in range(4):
            _w_values((detail["serde"], detail.get("tier", "quick"), part), tmp)
        keep = [v["what"] for s, v in tmp.violations.items() if f"|{detail['serde']}|{detail['store']}->{detail['fetch']}|" in s]
    else:
        _w_keys((bytes.fromhex(detail["prefix_hex"]), detail["unicode"], detail.get("tier", "quick"),
                 detail.get("stack", "client")), tmp)
        keep = [v["what"] for s, v in tmp.violations.items() if f"|{detail['fetch']}|{detail['collection']}|" in s]
    return keep
