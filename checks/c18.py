"""C18 - FallbackClient: reads fall through in order, writes touch only the primary.

Exhaustive enumeration.  Two kinds of cache objects are put behind FallbackClient:

 (A) scripted recorders: every method call on every cache is appended to one global log;
     reads are answered from a script whose miss values follow Client's contract
     (get -> None, gets -> (None, None), get_many / gets_many -> {}), hits include falsy
     values (b"", 0, a dict whose only value is b"").  Enumerated: 1..4 caches x every
     assignment of an answer kind to every cache x every read operation x key spellings /
     key collection types x positional / keyword call style; every mutating operation x
     1..4 caches x every combination of argument values (each optional argument omitted or
     given) x call style x the primary's own return value.
 (B) real pymemcache Clients over simnet, one reference server per cache, every assignment
     of {empty, holds a+b, holds only b} to the servers x every read and every mutating
     operation with fully specified arguments.  Judged from the servers' command logs and
     end states, writes differentially against the same call made on a plain Client.

Oracle (written from the property statement only):
  reads   - the caches consulted are exactly 0..h in this order, h = first cache that
            answered with a hit (non-empty dict for multi-key reads) or the last cache when
            none did; each is consulted once, with the read method itself and the caller's
            key(s); the result is cache h's answer; when nobody answered the result is a miss
            (None / (None, None) / empty container - the statement does not say which);
  writes  - exactly one mutating call, the same operation, reaches cache 0; every argument
            the caller gave arrives under the same parameter (values by identity); arguments
            the caller omitted are either omitted or FallbackClient's own declared default;
            no call of any kind reaches caches 1..n-1.
"""

from __future__ import annotations

import inspect
import itertools

from pymemcache.client.base import Client
from pymemcache.exceptions import MemcacheServerError
from pymemcache.fallback import FallbackClient

from vmc import runner, stacks
from vmc.strictparse import parse_all

PROPERTY = "C18"
LEVEL = "exploration"
RULE = (
    "cases = (A) scripted recorder caches: n in 1..4 (thorough 1..5) x every assignment of an answer "
    "kind per cache (get/gets: miss, distinct hit, empty-bytes hit, integer-0 hit [thorough also False, "
    "'' and [] hits]; get_many/gets_many: {}, one key, both keys, one key with an empty value) x read op "
    "x key spelling (str, bytes) / key collection (list, tuple, single-element list, empty list, dict "
    "view, one-shot generator) x call style (positional, keyword); every mutating op (set add replace "
    "append prepend cas delete incr decr touch flush_all) x n x every combination of argument values "
    "(optional arguments also omitted) x call style x primary's return value; (B) real Clients over "
    "simnet: n in 1..3 (thorough 1..4) x every assignment of {empty, a+b, only b} per server x reads and "
    "fully specified writes. non-trivial = every case (each drives the real FallbackClient once); "
    "distinct = distinct (cache kind, op, n, index of the cache that answered or 'none', answer kind "
    "there, key form) for reads and (cache kind, op, n, which optional arguments were given, style) "
    "for writes, as observed"
)

READS = ("get", "gets", "get_many", "gets_many")
MUTATORS = ("set", "add", "replace", "append", "prepend", "cas", "delete", "incr", "decr", "touch", "flush_all")
OTHER = ("close", "stats", "quit")
# every method of the Client interface that changes a server; used to classify what a cache was asked
MUTATING_NAMES = set(MUTATORS) | {"set_many", "set_multi", "delete_many", "delete_multi", "gat", "gats",
                                  "shutdown", "cache_memlimit", "raw_command", "quit", "close"}

OMIT = "<omitted>"


# ---------------------------------------------------------------------------
# (A) scripted recorder caches


class Scripted:
    """A cache object that records every method call and answers reads from a script."""

    def __init__(self, idx, answers, log, write_result=True):
        self.__dict__["_idx"] = idx
        self.__dict__["_answers"] = answers  # op name -> value to return
        self.__dict__["_log"] = log
        self.__dict__["_wr"] = write_result

    def __getattr__(self, name):
        if name.startswith("__"):
            raise AttributeError(name)
        idx, answers, log, wr = self._idx, self._answers, self._log, self._wr

        def method(*args, **kwargs):
            seen_args = args
            if name in ("get_many", "gets_many"):
                # what this cache can see of the keys it was handed (a one-shot iterator is
                # consumed exactly like Client would consume it)
                if args:
                    seen_args = (list(args[0]),) + tuple(args[1:])
                elif "keys" in kwargs:
                    kwargs = dict(kwargs, keys=list(kwargs["keys"]))
            log.append((idx, name, seen_args, kwargs))
            if name in READS:
                return answers[name]
            if isinstance(wr, str) and wr.startswith("raise-"):
                # a cache whose mutating call fails (only the primary is ever scripted this way)
                if idx == 0:
                    raise RAISERS[wr]()
                return True
            return wr

        return method


RAISERS = {
    "raise-oserror": lambda: ConnectionRefusedError(111, "scripted: primary unreachable"),
    "raise-timeout": lambda: TimeoutError("scripted: primary timed out"),
    "raise-memcache": lambda: MemcacheServerError(b"scripted: out of memory"),
}


class DefaultingCache:
    """A cache with Client's optional read arguments: a miss returns the default(s) it was given."""

    def __init__(self, idx, op, kind, log):
        self.idx, self.op, self.kind, self.log = idx, op, kind, log

    def get(self, key, default=None):
        self.log.append((self.idx, "get", (key, default), {}))
        return read_answer("get", "hit", self.idx, []) if self.kind == "hit" else default

    def gets(self, key, default=None, cas_default=None):
        self.log.append((self.idx, "gets", (key, default, cas_default), {}))
        return read_answer("gets", "hit", self.idx, []) if self.kind == "hit" else (default, cas_default)


def read_answer(op, kind, idx, keys):
    """The value a scripted cache returns for read `op` under answer kind `kind`."""
    v = b"v%d" % idx
    cas = b"%d" % (100 + idx)
    if op == "get":
        return {"miss": None, "miss-none": None, "hit": v, "hit-empty-bytes": b"", "hit-zero": 0, "hit-False": False,
                "hit-empty-str": "", "hit-empty-list": []}[kind]
    if op == "gets":
        return {"miss": (None, None), "miss-none": None, "hit-none-value": (None, cas), "hit": (v, cas), "hit-empty-bytes": (b"", cas), "hit-zero": (0, cas),
                "hit-False": (False, cas), "hit-empty-str": ("", cas), "hit-empty-list": ([], cas)}[kind]
    k1 = keys[0] if keys else "a"
    k2 = keys[1] if len(keys) > 1 else "zz"
    wrap = (lambda x: x) if op == "get_many" else (lambda x: (x, cas))
    return {"miss": {}, "hit-one": {k1: wrap(v)}, "hit-both": {k1: wrap(v), k2: wrap(v + b"'")},
            "hit-empty-value": {k2: wrap(b"")}}[kind]


def single_kinds(tier):
    k = ["hit", "miss", "hit-empty-bytes", "hit-zero"]
    if tier == "thorough":
        k += ["hit-False", "hit-empty-str", "hit-empty-list"]
    return k


MANY_KINDS = ["hit-one", "miss", "hit-both", "hit-empty-value"]

KEY_FORMS = ("str", "bytes")
KEYS_FORMS = ("list", "tuple", "list1", "empty", "dictview", "generator")


def make_key(form):
    return "a" if form == "str" else b"a"


def make_keys(form):
    """(argument to pass, the key list the caller means)"""
    base = ["a", b"b"]
    if form == "list":
        return list(base), base
    if form == "tuple":
        return tuple(base), base
    if form == "list1":
        return ["a"], ["a"]
    if form == "empty":
        return [], []
    if form == "dictview":
        return {k: 1 for k in base}.keys(), base
    if form == "generator":
        return (k for k in base), base
    raise ValueError(form)


def is_miss_like(op, result):
    if op == "get":
        return result is None
    if op == "gets":
        return result is None or (isinstance(result, tuple) and len(result) == 2 and result[0] is None)
    return result is None or (isinstance(result, (dict, list, tuple)) and len(result) == 0)


def short(v, n=60):
    r = repr(v)
    return r if len(r) <= n else r[: n - 3] + "..."


def bind_call(name, args, kwargs):
    """Parameter name -> value as a real Client would receive the call (None if it would not bind)."""
    fn = getattr(Client, name, None)
    if fn is None:
        return None
    try:
        ba = inspect.signature(fn).bind(None, *args, **kwargs)
    except TypeError:
        return None
    d = dict(ba.arguments)
    d.pop("self", None)
    return d


def run_read_scripted(n, kinds, op, form, style):
    """One case.  Returns (problems, outcome_key); problems = [(sig, text)]."""
    log = []
    if op in ("get", "gets"):
        key = make_key(form)
        meant = key
        arg = key
        keys_for_answers = []
    else:
        arg, meant = make_keys(form)
        keys_for_answers = meant
    answers = [read_answer(op, kinds[i], i, keys_for_answers) for i in range(n)]
    caches = [Scripted(i, {op: answers[i]}, log) for i in range(n)]
    fc = FallbackClient(caches)
    pname = "key" if op in ("get", "gets") else "keys"
    desc = (f"FallbackClient({n} caches answering {list(kinds)}).{op}("
            f"{pname + '=' if style == 'kw' else ''}{short(meant)}{' as ' + form if op.endswith('many') else ''})")
    try:
        result = getattr(fc, op)(arg) if style == "pos" else getattr(fc, op)(**{pname: arg})
    except Exception as e:  # noqa
        return [(f"scripted|{op}|raises|{type(e).__name__}", f"{desc} raised {type(e).__name__}: {e}")], \
            ("scripted", op, n, "raises")
    hit = next((i for i in range(n) if not kinds[i].startswith("miss")), None)
    h = hit if hit is not None else n - 1
    problems = []
    # which caches were consulted, in which order, with what
    consulted = [e[0] for e in log]
    exp = list(range(h + 1))
    foreign = [e for e in log if e[1] != op]
    if foreign:
        e = foreign[0]
        cls = "mutating" if e[1] in MUTATING_NAMES else "other"
        problems.append((f"scripted|{op}|read-calls-{cls}-method|{e[1]}",
                         f"{desc} called {e[1]}{short(e[2])} on cache {e[0]}"))
    own = [e for e in log if e[1] == op]
    consulted = [e[0] for e in own]
    if consulted != exp:
        if consulted == exp[: len(consulted)]:
            j = consulted[-1] if consulted else None
            at = kinds[j] if j is not None else "-"
            problems.append((f"scripted|{op}|stops-although-miss|miss-value={short(answers[j]) if j is not None else '-'}",
                             f"{desc} consulted caches {consulted} only; cache {j} answered {short(answers[j]) if j is not None else '-'} "
                             f"(a miss, kind {at}), so caches up to {h} had to be asked"))
        elif exp == consulted[: len(exp)]:
            problems.append((f"scripted|{op}|continues-after-hit|hit-kind={kinds[h]}",
                             f"{desc} consulted caches {consulted}; cache {h} had answered {short(answers[h])} "
                             f"(a hit), nothing after it may be asked"))
        elif sorted(consulted) == sorted(set(consulted)) and sorted(consulted) != consulted:
            problems.append((f"scripted|{op}|wrong-order", f"{desc} consulted caches in order {consulted}, "
                             f"configured order is {exp}"))
        else:
            problems.append((f"scripted|{op}|wrong-consultation", f"{desc} consulted caches {consulted}, expected {exp}"))
    # the key(s) every consulted cache received
    for pos, e in enumerate(own):
        b = bind_call(op, e[2], e[3])
        got = b.get(pname, OMIT) if b is not None else OMIT
        if op in ("get", "gets"):
            ok = got is not OMIT and type(got) is type(meant) and got == meant
        else:
            ok = got is not OMIT and list(got) == list(meant)
        if not ok:
            where = "first" if pos == 0 else "fallback"
            problems.append((f"scripted|{op}|wrong-keys-at-{where}-cache|{form}",
                             f"{desc}: cache {e[0]} was asked for {short(got)} instead of {short(meant)}"))
            break
    # the result
    if not problems or all("wrong-keys" in p[0] for p in problems):
        if hit is not None:
            want = answers[hit]
            if not (type(result) is type(want) and result == want):
                problems.append((f"scripted|{op}|wrong-result|hit-kind={kinds[hit]}",
                                 f"{desc} returned {short(result)}; first hit is cache {hit}'s {short(want)}"))
        elif not is_miss_like(op, result):
            problems.append((f"scripted|{op}|result-not-a-miss", f"{desc} returned {short(result)} although every "
                             f"cache missed"))
    return problems, ("scripted", op, n, hit if hit is not None else "none",
                      kinds[hit] if hit is not None else "miss", form, style)


# -- writes ------------------------------------------------------------------

_SENT = object()


class Unique:
    """A value recognisable by identity."""

    def __repr__(self):
        return "<unique value>"


W_PARAMS = {
    "set": ("key", "value", "expire", "noreply"),
    "add": ("key", "value", "expire", "noreply"),
    "replace": ("key", "value", "expire", "noreply"),
    "append": ("key", "value", "expire", "noreply"),
    "prepend": ("key", "value", "expire", "noreply"),
    "cas": ("key", "value", "cas", "expire", "noreply"),
    "delete": ("key", "noreply"),
    "incr": ("key", "value", "noreply"),
    "decr": ("key", "value", "noreply"),
    "touch": ("key", "expire", "noreply"),
    "flush_all": ("delay", "noreply"),
}
REQUIRED = {"key", "value", "cas"}


def domain(op, param, tier):
    if param == "key":
        return ["a", b"a"]
    if param == "value":
        if op in ("incr", "decr"):
            return [1, 2 ** 64, 0, -3]  # the caller's delta goes through as given, whatever its sign
        return [b"v", 0, None, "unique"] if tier == "quick" else [b"v", b"", 0, None, "s", "unique"]
    if param == "cas":
        return [b"17", 17]
    if param == "expire":
        return [OMIT, 0, 30, -1, 2592000, 2592001, 4000000000]  # also beyond 30 days (relative limit / absolute time)
    if param == "delay":
        return [OMIT, 0, 7]
    if param == "noreply":
        return [OMIT, True, False] if tier == "quick" else [OMIT, True, False, None]
    raise KeyError(param)


def write_cases(op, tier):
    params = W_PARAMS[op]
    for combo in itertools.product(*(domain(op, p, tier) for p in params)):
        for style in ("pos", "kw"):
            yield combo, style


def materialise(combo):
    return tuple(Unique() if v == "unique" and isinstance(v, str) else v for v in combo)


def call_with(fc, op, params, vals, style):
    """Call fc.op with the given values; omitted optionals are left out.  In positional style
    arguments are positional up to the first omitted one, keywords afterwards."""
    args, kwargs = [], {}
    positional = style == "pos"
    for p, v in zip(params, vals):
        if isinstance(v, str) and v == OMIT:
            positional = False
            continue
        if positional:
            args.append(v)
        else:
            kwargs[p] = v
    return getattr(fc, op)(*args, **kwargs)


def declared_default(op, param):
    try:
        d = inspect.signature(getattr(FallbackClient, op)).parameters[param].default
    except (KeyError, AttributeError, ValueError):
        return _SENT
    return _SENT if d is inspect.Parameter.empty else d


def run_write_scripted(n, op, combo, style, wr):
    params = W_PARAMS[op]
    vals = materialise(combo)
    log = []
    caches = [Scripted(i, {}, log, write_result=wr) for i in range(n)]
    fc = FallbackClient(caches)
    given = {p: v for p, v in zip(params, vals) if not (isinstance(v, str) and v == OMIT)}
    desc = (f"FallbackClient({n} caches).{op}(" + ", ".join(
        (f"{p}=" if style == "kw" else "") + short(v, 24) for p, v in given.items()) + ")")
    okey = ("scripted", op, n, tuple(p for p in params if p in given and p not in REQUIRED), style)
    raising = isinstance(wr, str) and wr.startswith("raise-")
    if raising:
        desc += f" with a primary whose {op} raises {type(RAISERS[wr]()).__name__}"
        okey = okey + (wr,)
    try:
        call_with(fc, op, params, vals, style)
    except Exception as e:  # noqa
        # the primary's own failure may reach the caller (the statement does not say whether it has to);
        # the write rule is judged on what the caches were asked either way
        if not (raising and type(e) is type(RAISERS[wr]())):
            return [(f"scripted|{op}|raises|{type(e).__name__}", f"{desc} raised {type(e).__name__}: {e}")], okey
    problems = []
    others = [e for e in log if e[0] != 0]
    if others:
        e = others[0]
        problems.append((f"scripted|{op}|fallback-cache-touched|{e[1]}",
                         f"{desc} called {e[1]}{short(e[2])} on cache {e[0]} (a fallback cache); "
                         f"caches touched: {sorted({x[0] for x in log})}"))
    mine = [e for e in log if e[0] == 0 and (e[1] in MUTATING_NAMES or e[1] == op)]
    if not mine:
        problems.append((f"scripted|{op}|primary-not-written", f"{desc} made no mutating call on cache 0 "
                         f"(log: {short(log)})"))
        return problems, okey
    if len(mine) != 1 or mine[0][1] != op:
        problems.append((f"scripted|{op}|primary-gets-other-calls|" + ",".join(e[1] for e in mine),
                         f"{desc} made calls {[e[1] for e in mine]} on cache 0, expected exactly one {op}"))
        return problems, okey
    e = mine[0]
    b = bind_call(op, e[2], e[3])
    if b is None:
        problems.append((f"scripted|{op}|call-does-not-fit-client-signature",
                         f"{desc} called cache0.{op}{short(e[2])} {short(e[3])}, which Client.{op} cannot accept"))
        return problems, okey
    for p in params:
        got = b.get(p, OMIT)
        if p in given:
            want = given[p]
            same = got is want or (not isinstance(want, Unique) and got is not OMIT
                                   and type(got) is type(want) and got == want)
            if not same:
                problems.append((f"scripted|{op}|argument-changed|{p}",
                                 f"{desc}: cache 0 received {p}={short(got)} instead of {short(want)}"))
        else:
            dd = declared_default(op, p)
            if not (got is OMIT or (dd is not _SENT and type(got) is type(dd) and got == dd)):
                problems.append((f"scripted|{op}|omitted-argument-invented|{p}",
                                 f"{desc}: caller omitted {p}; cache 0 received {p}={short(got)} "
                                 f"(declared default: {short(dd) if dd is not _SENT else 'none'})"))
    extra = set(b) - set(params)
    for p in sorted(extra):
        problems.append((f"scripted|{op}|extra-argument|{p}", f"{desc}: cache 0 received an argument {p}={short(b[p])} "
                         "the caller never gave"))
    return problems, okey


# ---------------------------------------------------------------------------
# (B) real Clients over simnet

STATES = ("ab", "empty", "b")
REAL_READS = [("get", ("a",)), ("gets", ("a",)), ("get_many", (["a", "b"],)), ("gets_many", (["a", "b"],)),
              ("get_many", (["a"],))]
REAL_WRITES = [
    ("set", ("a", b"9", 0, False)), ("set", ("c", b"new", 30, True)),
    ("add", ("a", b"9", 0, False)), ("add", ("c", b"9", 0, True)),
    ("replace", ("a", b"9", 0, False)), ("replace", ("b", b"9", 5, True)),
    ("append", ("b", b"+", 0, False)), ("prepend", ("b", b"-", 0, True)),
    ("cas", ("a", b"9", b"1", 0, False)), ("cas", ("b", b"9", b"2", 0, True)),
    ("delete", ("a", False)), ("delete", ("b", True)),
    ("incr", ("a", 2, False)), ("incr", ("a", 3, True)), ("decr", ("a", 1, False)),
    ("touch", ("b", 10, False)), ("touch", ("a", 10, True)),
    ("flush_all", (0, False)), ("flush_all", (5, True)),
]


def preload_bytes(state, i):
    a = b"set a 0 0 2\r\n%d\r\n" % (40 + i)  # numeric so that incr/decr apply
    b = b"set b 3 0 2\r\nx%d\r\n" % i
    return {"empty": b"", "ab": a + b, "b": b}[state]


def build_real(states):
    net = stacks.new_net(servers=())
    servers = []
    for i, st in enumerate(states):
        srv = net.add_server(f"h{i}", 11211)
        items, rest = parse_all(preload_bytes(st, i))
        assert not rest
        for it in items:
            srv.execute(it)
        servers.append(srv)
    return net, servers


def server_cmds(net, servers):
    """Global order of the commands the servers executed during call 1: [(server idx, Cmd)]."""
    by_sock = {}
    for s in net.socks:
        if s.addr is not None:
            by_sock[s.sid] = int(s.addr[1][1:])
    order = []
    for call, sid, data in net.sent:
        if call == 1:
            items, _ = parse_all(data)
            for it in items:
                order.append((by_sock[sid], it))
    return order


def cmd_tuple(c):
    return c.astuple() if hasattr(c, "astuple") else ("malformed", repr(c))


def run_real(states, op, args, is_read):
    n = len(states)
    net, servers = build_real(states)
    before = [s.snapshot() for s in servers]
    caches = [Client((f"h{i}", 11211), socket_module=net.module()) for i in range(n)]
    fc = FallbackClient(caches)
    desc = f"FallbackClient({n} real Clients, servers {list(states)}).{op}{short(args)}"
    net.call = 1
    try:
        result = getattr(fc, op)(*args)
    except Exception as e:  # noqa
        return [(f"client|{op}|raises|{type(e).__name__}", f"{desc} raised {type(e).__name__}: {e}")], \
            ("client", op, n, "raises")
    net.call = 0
    cmds = server_cmds(net, servers)
    per_server_log = [[e for e in s.log if e[0] == 1] for s in servers]
    problems = []
    if is_read:
        keys = [args[0]] if op in ("get", "gets") else list(args[0])
        bkeys = [k.encode() if isinstance(k, str) else k for k in keys]

        def answer(i):
            """What a plain Client would return from server i (from the preload, not from the library)."""
            snap = before[i]
            if op == "get":
                return snap[b"a"][0] if b"a" in snap else None
            if op == "gets":
                return (snap[b"a"][0], str(snap[b"a"][3]).encode()) if b"a" in snap else (None, None)
            out = {}
            for k, bk in zip(keys, bkeys):
                if bk in snap:
                    out[k] = snap[bk][0] if op == "get_many" else (snap[bk][0], str(snap[bk][3]).encode())
            return out

        def is_hit(i):
            a = answer(i)
            return bool(a) if op.endswith("many") else (a is not None and a != (None, None))

        hit = next((i for i in range(n) if is_hit(i)), None)
        h = hit if hit is not None else n - 1
        asked = [i for i, _ in cmds]
        exp = list(range(h + 1))
        verb = {"get": b"get", "get_many": b"get", "gets": b"gets", "gets_many": b"gets"}[op]
        bad_cmd = [(i, c) for i, c in cmds if getattr(c, "verb", None) != verb or list(getattr(c, "keys", [])) != bkeys]
        if bad_cmd:
            i, c = bad_cmd[0]
            problems.append((f"client|{op}|unexpected-command-sent", f"{desc} sent {c!r} to server {i}"))
        elif asked != exp:
            if asked == exp[: len(asked)]:
                j = asked[-1] if asked else 0
                problems.append((f"client|{op}|stops-although-miss|miss-value={short(answer(j))}",
                                 f"{desc} asked servers {asked} only although server {j} answered {short(answer(j))} "
                                 f"(a miss); first hit is at {hit}"))
            elif exp == asked[: len(exp)]:
                problems.append((f"client|{op}|continues-after-hit", f"{desc} asked servers {asked}; server {h} "
                                 f"had the item"))
            else:
                problems.append((f"client|{op}|wrong-order", f"{desc} asked servers in order {asked}, expected {exp}"))
        if not problems:
            if hit is not None:
                want = answer(hit)
                if not (type(result) is type(want) and result == want):
                    problems.append((f"client|{op}|wrong-result", f"{desc} returned {short(result)}; server {hit} "
                                     f"holds {short(want)}"))
            elif not is_miss_like(op, result):
                problems.append((f"client|{op}|result-not-a-miss", f"{desc} returned {short(result)} although no "
                                 "server holds the key"))
        for i in range(n):
            if servers[i].snapshot() != before[i]:
                problems.append((f"client|{op}|read-changed-server", f"{desc} changed the contents of server {i}"))
                break
        return problems, ("client", op, n, hit if hit is not None else "none", states[h], "-", "-")
    # writes: differential against the same call on a plain Client talking to server 0
    rnet, rservers = build_real(states[:1])
    rc = Client(("h0", 11211), socket_module=rnet.module())
    rnet.call = 1
    try:
        getattr(rc, op)(*args)
    except Exception as e:  # noqa
        raise runner.HarnessError(f"reference call Client.{op}{args!r} raised {e!r}")
    rnet.call = 0
    want_cmds = [cmd_tuple(c) for _, c in server_cmds(rnet, rservers)]
    touched = sorted({i for i, _ in cmds if i != 0})
    if touched:
        i, c = next((i, c) for i, c in cmds if i != 0)
        problems.append((f"client|{op}|fallback-cache-touched", f"{desc} sent {c!r} to server {i} (a fallback cache)"))
    for i in range(1, n):
        if servers[i].snapshot() != before[i] or per_server_log[i]:
            if not touched:
                problems.append((f"client|{op}|fallback-cache-touched", f"{desc} reached server {i}"))
            break
    got_cmds = [cmd_tuple(c) for i, c in cmds if i == 0]
    if got_cmds != want_cmds:
        problems.append((f"client|{op}|primary-command-differs",
                         f"{desc}: server 0 received {short(got_cmds, 120)}; Client.{op}{short(args)} sends "
                         f"{short(want_cmds, 120)}"))
    elif servers[0].snapshot() != rservers[0].snapshot():
        problems.append((f"client|{op}|primary-state-differs", f"{desc}: server 0 ends as "
                         f"{short(servers[0].snapshot(), 100)}, after the plain call it is "
                         f"{short(rservers[0].snapshot(), 100)}"))
    return problems, ("client", op, n, "write", states[0], tuple(args[-2:]) if len(args) > 1 else args, "-")



HWARGS = {"set": ("a", b"v"), "add": ("a", b"v"), "replace": ("a", b"v"), "append": ("a", b"v"),
          "prepend": ("a", b"v"), "cas": ("a", b"v", b"100"), "delete": ("a",), "incr": ("a", 1),
          "decr": ("a", 1), "touch": ("a",), "flush_all": ()}


def run_history(n, assign, seq):
    """One history on one FallbackClient over scripted caches.  -> problems"""
    log = []

    def cache(i, kind):
        return Scripted(i, {r: read_answer(r, "miss" if kind == "miss" else ("hit" if r in ("get", "gets") else "hit-one"),
                                           i, ["a", "b"]) for r in READS}, log)

    kinds = dict(enumerate(assign))
    objs = {i: cache(i, assign[i]) for i in range(n)}
    fc = FallbackClient([objs[i] for i in range(n)])
    order = list(range(n))
    problems = []
    done = []
    for ev in seq:
        ctx = "+".join(done) or "start"
        desc = f"FallbackClient({n} caches answering {list(assign)}) after [{', '.join(done) or 'nothing'}]: {ev}"
        mark = len(log)
        if ev.startswith("retier:"):
            i = len(objs)
            kinds[i] = "miss"
            objs[i] = cache(i, "miss")
            try:
                if ev == "retier:insert-front":
                    fc.caches.insert(0, objs[i])
                    order.insert(0, i)
                else:
                    fc.caches[0] = objs[i]
                    order[0] = i
            except (AttributeError, TypeError):
                return problems  # the list is not editable in place: re-tiering is not offered, nothing to judge
            done.append(ev)
            continue
        single = ev in ("get", "gets")
        try:
            if ev in READS:
                result = getattr(fc, ev)("a" if single else ["a", "b"])
            else:
                getattr(fc, ev)(*HWARGS[ev])
        except Exception as e:  # noqa
            problems.append((f"history|{ev}|raises|{type(e).__name__}|after={ctx}", f"{desc} raised {type(e).__name__}: {e}"))
            return problems
        after = log[mark:]
        if ev in READS:
            hit = next((j for j in order if kinds[j] != "miss"), None)
            exp = order[: order.index(hit) + 1] if hit is not None else list(order)
            consulted = [e[0] for e in after if e[1] == ev]
            foreign = [e for e in after if e[1] != ev]
            if foreign:
                problems.append((f"history|{ev}|read-calls-other-method|{foreign[0][1]}|after={ctx}",
                                 f"{desc} called {foreign[0][1]} on cache {foreign[0][0]}"))
            elif consulted != exp:
                problems.append((f"history|{ev}|wrong-consultation|after={ctx}",
                                 f"{desc} consulted caches {consulted}; the list is {order} with first hit at "
                                 f"{hit}, so {exp} had to be asked, in that order"))
            elif hit is not None:
                want = read_answer(ev, "hit" if single else "hit-one", hit, ["a", "b"])
                if not (type(result) is type(want) and result == want):
                    problems.append((f"history|{ev}|wrong-result|after={ctx}",
                                     f"{desc} returned {short(result)}; first hit is cache {hit}'s {short(want)}"))
            elif not is_miss_like(ev, result):
                problems.append((f"history|{ev}|result-not-a-miss|after={ctx}", f"{desc} returned {short(result)} although every cache missed"))
        else:
            touched = sorted({e[0] for e in after})
            if any(j != order[0] for j in touched):
                problems.append((f"history|{ev}|fallback-cache-touched|after={ctx}",
                                 f"{desc}{HWARGS[ev]!r} reached caches {touched}; the first cache of the list is "
                                 f"{order[0]} and writes must go to it only"))
            elif not any(e[0] == order[0] and e[1] == ev for e in after):
                problems.append((f"history|{ev}|primary-not-written|after={ctx}", f"{desc}: cache {order[0]} saw {after}"))
        if problems:
            return problems
        done.append(ev)
    return problems

# ---------------------------------------------------------------------------
# enumeration


def jobs_for(tier):
    nmax = 4 if tier == "quick" else 5
    rmax = 3 if tier == "quick" else 4
    jobs = []
    for n in range(1, nmax + 1):
        for op in READS:
            jobs.append(("sread", n, op, tier))
        for op in MUTATORS:
            jobs.append(("swrite", n, op, tier))
    for n in range(1, nmax + 1):
        jobs.append(("history", n, None, tier))
    for n in range(1, rmax + 1):
        jobs.append(("real", n, None, tier))
    for n in range(2, nmax + 1):
        jobs.append(("optargs", n, None, tier))
    jobs.append(("surface", 0, None, tier))
    return jobs


def _record(chk, problems, key, detail):
    chk.add()
    chk.outcome(key)
    for sig, text in problems:
        chk.violation(sig, text, detail)


def _worker(job, chk):
    mode, n, op, tier = job
    if mode == "sread":
        single = op in ("get", "gets")
        kinds = single_kinds(tier) if single else MANY_KINDS
        if n == 5:
            kinds = kinds[:4]
        if op == "gets":
            # a cache may report a gets miss as None too (a nested FallbackClient does)
            # ... and an item whose value deserialises to None still exists: it has a cas token
            kinds = kinds + ["miss-none", "hit-none-value"]
        forms = KEY_FORMS if single else KEYS_FORMS
        first = True
        for assign in itertools.product(kinds, repeat=n):
            for form in forms:
                for style in ("pos", "kw"):
                    problems, key = run_read_scripted(n, assign, op, form, style)
                    _record(chk, problems, key, {"mode": mode, "n": n, "op": op, "kinds": list(assign),
                                                 "form": form, "style": style})
                    if first and n == 3 and "miss" in assign[:1] and assign[1] != "miss":
                        first = False
                        chk.sample({"caches": "scripted", "answers": list(assign), "call": f"{op}({form} key(s))",
                                    "problems": [t for _, t in problems][:2]})
    elif mode == "swrite":
        for combo, style in write_cases(op, tier):
            for wr in (True, False, None) + (tuple(RAISERS) if n > 1 else ()):
                problems, key = run_write_scripted(n, op, combo, style, wr)
                _record(chk, problems, key, {"mode": mode, "n": n, "op": op, "combo": list(combo), "style": style,
                                             "write_result": wr})
        if n == 2 and op == "cas":
            chk.sample({"caches": "scripted", "n": n, "call": "cas(every combination of key/value/cas/expire/noreply)",
                        "cases": sum(1 for _ in write_cases(op, tier)) * 3})
    elif mode == "real":
        for states in itertools.product(STATES, repeat=n):
            for rop, args in REAL_READS:
                problems, key = run_real(states, rop, args, True)
                _record(chk, problems, key, {"mode": mode, "states": list(states), "op": rop, "args": _jargs(args),
                                             "read": True})
            for wi, (wop, args) in enumerate(REAL_WRITES):
                problems, key = run_real(states, wop, args, False)
                _record(chk, problems, key, {"mode": mode, "states": list(states), "op": wop, "windex": wi,
                                             "read": False})
    elif mode == "history":
        # one long-lived FallbackClient: every sequence of events (reads, mutators, and re-tiering through the
        # public `caches` list) of the given length under every hit/miss assignment; after every event the
        # read rule / write rule is judged against the list as it is at that moment
        if tier == "quick":
            length = 3 if n <= 3 else 2
        else:
            length = 4 if n <= 2 else 3
        events = list(READS) + list(MUTATORS) + ["retier:insert-front", "retier:replace-first"]
        for assign in itertools.product(("hit", "miss"), repeat=n):
            for seq in itertools.product(events, repeat=length):
                if not any(e in READS or e in MUTATORS for e in seq[1:]):
                    continue
                problems = run_history(n, assign, seq)
                _record(chk, problems, ("history", n, seq, assign), {"mode": mode, "n": n, "seq": list(seq),
                                                                       "kinds": list(assign)})
    elif mode == "optargs":
        # optional read arguments of the Client interface (get: default; gets: default, cas_default).  If
        # FallbackClient does not take them (TypeError from its own signature, nothing asked) there is nothing
        # to judge; if it does, a cache that misses hands back the caller's default - which is a miss, not a hit
        for op, extra_sets in (("get", [(("D",), {}), ((), {"default": "D"})]),
                               ("gets", [(("D", "C"), {}), ((), {"default": "D", "cas_default": "C"}), ((), {"default": "D"})])):
            for args, kw in extra_sets:
                for assign in itertools.product(("hit", "miss"), repeat=n):
                    log = []
                    caches = [DefaultingCache(i, op, assign[i], log) for i in range(n)]
                    fc = FallbackClient(caches)
                    desc = f"FallbackClient({n} caches answering {list(assign)}).{op}('a', {', '.join([repr(a) for a in args] + [f'{k}={v!r}' for k, v in kw.items()])})"
                    try:
                        result = getattr(fc, op)("a", *args, **kw)
                    except TypeError:
                        if not log:
                            chk.count("optional_read_arguments_not_offered")
                            continue
                        result = "<TypeError after consulting a cache>"
                    chk.add()
                    chk.outcome(("optargs", op, n, assign, bool(kw)))
                    hit = next((i for i in range(n) if assign[i] == "hit"), None)
                    exp = list(range(hit + 1)) if hit is not None else list(range(n))
                    consulted = [e[0] for e in log]
                    problems = []
                    if consulted != exp:
                        problems.append((f"optargs|{op}|wrong-consultation", f"{desc} consulted caches {consulted}; a cache that "
                                         f"misses answers with the caller's default, so {exp} had to be asked"))
                    elif hit is not None:
                        want = read_answer(op, "hit", hit, [])
                        if result != want:
                            problems.append((f"optargs|{op}|wrong-result", f"{desc} returned {short(result)}; first hit is cache {hit}'s {short(want)}"))
                    for sig, text in problems:
                        chk.violation(sig, text, {"mode": mode, "n": n})
    elif mode == "surface":
        public = sorted(x for x in dir(FallbackClient) if not x.startswith("_") and callable(getattr(FallbackClient, x)))
        known = set(READS) | set(MUTATORS) | set(OTHER)
        for name in public:
            if name not in known:
                chk.count("public_methods_not_classified")
        for name in list(READS) + list(MUTATORS):
            if name not in public:
                chk.violation(f"surface|{name}|missing", f"FallbackClient has no method {name}", {"mode": mode})
        chk.count("operations_checked", len(READS) + len(MUTATORS))


def _jargs(args):
    return [list(a) if isinstance(a, (list, tuple)) else a for a in args]


def run(chk):
    chk.rule = RULE
    chk.assumptions = [
        "a miss is what Client documents: get -> None, gets -> (None, None), get_many/gets_many -> {}",
        "any non-None value (b'', 0, False, '', []) returned by get, and any non-empty dict, is a hit",
        "when every cache misses, any miss-like result is accepted (the statement does not fix it)",
        "return values of mutating operations are not judged (the statement does not mention them)",
        "close / stats / quit are outside the statement",
        "caches do not raise (error handling is not part of the statement)",
        "real-Client runs use the reference server of vmc/modelserver.py",
    ]
    runner.parallel(chk, _worker, jobs_for(chk.tier))


def replay(detail):
    mode = detail["mode"]
    if mode == "sread":
        problems, _ = run_read_scripted(detail["n"], tuple(detail["kinds"]), detail["op"], detail["form"],
                                        detail["style"])
    elif mode == "swrite":
        combo = tuple(_unj(v) for v in detail["combo"])
        problems, _ = run_write_scripted(detail["n"], detail["op"], combo, detail["style"], detail["write_result"])
    elif mode == "real":
        if detail["read"]:
            args = tuple(_unj(a) for a in detail["args"])
            problems, _ = run_real(tuple(detail["states"]), detail["op"], args, True)
        else:
            wop, args = REAL_WRITES[detail["windex"]]
            problems, _ = run_real(tuple(detail["states"]), wop, args, False)
    elif mode == "optargs":
        tmp = runner.Check(PROPERTY, LEVEL, "quick", 0)
        _worker(("optargs", detail["n"], None, "quick"), tmp)
        problems = [(sg, v["what"]) for sg, v in tmp.violations.items()]
    elif mode == "history":
        problems = run_history(detail["n"], tuple(detail["kinds"]), tuple(detail["seq"]))
    else:
        problems = [(None, f"FallbackClient has no method {n}") for n in list(READS) + list(MUTATORS)
                    if not hasattr(FallbackClient, n)]
    return [t for _, t in problems]


def _unj(v):
    """Undo runner.jclean for the few value shapes used here."""
    if isinstance(v, str):
        if v.startswith("b:"):
            return v[2:].encode("ascii")
        if v.startswith("hex:"):
            return bytes.fromhex(v[4:])
        if v.isdigit() and len(v) > 18:
            return int(v)
    if isinstance(v, list):
        return [_unj(x) for x in v]
    return v
