"""C08 - pooled connections are never shared between threads.

Engine E3: every interleaving, within a preemption bound, of 2-3 real threads running the real
ObjectPool / PooledClient code, with scheduling points at every bytecode instruction of
pymemcache/pool.py and of class PooledClient, at every socket call and at every lock
operation (vmc/sched.py).  Invariants are evaluated at every scheduling point, the end state
when all threads are done.
"""

from __future__ import annotations

import itertools

import pymemcache.pool as pool_mod
from pymemcache.client.base import Client, PooledClient
from pymemcache.pool import ObjectPool

from vmc import runner, sched, simnet, stacks
from vmc.ops import preload

PROPERTY = "C08"
LEVEL = "exploration"
RULE = (
    "executions = harness (thread programs x pool size x options) x schedule with <= bound preemptions; scheduling "
    "points: every bytecode instruction of pool.py and PooledClient, every socket call, every lock acquire/release; "
    "non-trivial = >= 1 context switch at a point where the running thread could have continued, or a blocked "
    "acquire; distinct = distinct (harness, observable outcome: per-thread results, final pool contents, sockets opened/closed)"
)


class _Threading:
    """Stand-in for the `threading` module inside pymemcache.pool: a mutant that stops using the
    lock_generator seam still gets a lock the scheduler can see (and cannot hang it)."""

    current = None

    def Lock(self):
        return sched.SimLock(self.current)

    RLock = Lock

    def __getattr__(self, name):
        import threading
        return getattr(threading, name)


SHIM = _Threading()
pool_mod.threading = SHIM
_INSTR = {}


def instrument(granularity):
    if granularity not in _INSTR:
        for g, ins in list(_INSTR.items()):
            ins.uninstall()
            del _INSTR[g]
        # ... and Client.close(), which the pool's finaliser and a failing call can both be inside for one connection
        codes = sched.code_objects_of(pool_mod) + sched.code_objects_of(PooledClient) + sched.code_objects_of(Client.close)
        _INSTR[granularity] = sched.Instrument(codes, granularity)
    return _INSTR[granularity]


class Token:
    n = 0

    def __init__(self, log):
        Token.n += 1
        self.id = len(log["created"])
        log["created"].append(self)
        self.removed = 0

    def __repr__(self):
        return f"<obj{self.id}>"


# ----------------------------------------------------------------------------- H1 / H2: ObjectPool

PROGRAMS = ("get-release", "get-destroy", "with-raises", "with-ok", "clear", "get-release-twice", "with-raises-keep", "get-two")


def pool_program(name, pool, holder, tid):
    def track_get():
        o = pool.get()
        if holder.get(id(o)) is not None:
            holder["shared"] = f"{o!r} handed to thread {tid} while thread {holder[id(o)]} still holds it"
        holder[id(o)] = tid
        return o

    def give_up(o):
        holder[id(o)] = None

    def run():
        if name == "get-release":
            o = track_get()
            give_up(o)
            pool.release(o)
        elif name == "get-release-twice":
            for _ in range(2):
                o = track_get()
                give_up(o)
                pool.release(o)
        elif name == "get-two":
            # holds one object while it checks a second one out (so it holds across scheduling points)
            o1 = track_get()
            try:
                o2 = track_get()
            except RuntimeError:
                o2 = None  # "Too many objects": legal when the pool is exhausted
            for o in (o2, o1):
                if o is not None:
                    give_up(o)
                    pool.release(o)
        elif name == "get-destroy":
            o = track_get()
            give_up(o)
            pool.destroy(o)
        elif name == "with-raises":
            try:
                with pool.get_and_release(destroy_on_fail=True) as o:
                    if holder.get(id(o)) is not None:
                        holder["shared"] = f"{o!r} handed to thread {tid} while thread {holder[id(o)]} still holds it"
                    holder[id(o)] = None  # the context manager gives it back right away
                    raise KeyError("application error inside the with-block")
            except KeyError:
                pass
        elif name == "with-raises-keep":
            try:
                with pool.get_and_release(destroy_on_fail=False) as o:  # the default: a failing body keeps the object
                    if holder.get(id(o)) is not None:
                        holder["shared"] = f"{o!r} handed to thread {tid} while thread {holder[id(o)]} still holds it"
                    holder[id(o)] = None
                    raise KeyError("application error inside the with-block")
            except KeyError:
                pass
        elif name == "with-ok":
            with pool.get_and_release(destroy_on_fail=True) as o:
                if holder.get(id(o)) is not None:
                    holder["shared"] = f"{o!r} handed to thread {tid} while thread {holder[id(o)]} still holds it"
                holder[id(o)] = None
        elif name == "clear":
            pool.clear()
        return "done"

    return run


def run_pool(ch, programs, max_size, prefill, granularity):
    ins = instrument(granularity)
    log = {"created": []}
    s = sched.Sched(ch)
    SHIM.current = s
    removed = []

    def after_remove(o):
        o.removed += 1
        removed.append(o)

    stale = prefill == "stale"
    clock = simnet.Clock()
    stacks.PROXY.current = clock
    pool = ObjectPool(lambda: Token(log), after_remove=after_remove, max_size=max_size,
                      lock_generator=lambda: sched.SimLock(s), idle_timeout=10 if stale else 0)
    for _ in range(1 if stale else prefill):  # idle objects already in the pool
        pool.release(pool.get())
    if stale:
        clock.advance(11)  # the idle object has outlived idle_timeout: the next checkout must close it
    holder = {}

    def invariant():
        used, free = list(pool._used_objs), list(pool._free_objs)
        if len(used) + len(free) > pool.max_size:
            return f"pool holds {len(used)} used + {len(free)} idle objects, max_size is {pool.max_size}"
        allo = used + free
        if len({id(o) for o in allo}) != len(allo):
            return f"an object is listed twice: used={used} free={free}"
        if "shared" in holder:
            return holder["shared"]
        for o in free:
            if holder.get(id(o)) is not None:
                return f"{o!r} is idle in the pool while thread {holder[id(o)]} still holds it (the next checkout shares it)"
        return None

    s.invariant = invariant
    for tid, p in enumerate(programs):
        s.add(pool_program(p, pool, holder, tid))
    ins.sched = s
    try:
        s.run()
    finally:
        ins.sched = None
    return s, pool, log, removed


def judge_pool(s, pool, log, removed, programs, max_size):
    out = []
    if s.broken:
        out.append(("invariant", s.broken[0][1]))
    if s.deadlock is not None:
        out.append(("deadlock", f"threads {s.deadlock} wait for a lock nobody will release"))
        return out
    for t in s.threads:
        e = t.exc
        if e is None:
            continue
        if isinstance(e, RuntimeError) and str(e).startswith("Too many objects"):
            try:
                cur, mx = [int(x) for x in str(e).split(",")[1].replace(">=", " ").split()]
            except Exception:
                cur, mx = -1, -2
            if not (cur >= mx and mx == max_size):
                out.append(("bogus-too-many-objects", f"thread {t.tid} ({programs[t.tid]}): {e} although max_size is {max_size}"))
        else:
            out.append(("internal-error", f"thread {t.tid} ({programs[t.tid]}) failed with {type(e).__name__}: {e}"))
    if out:
        return out
    if pool._used_objs:
        out.append(("still-checked-out", f"all threads are done but {list(pool._used_objs)} are still checked out"))
    idle = list(pool._free_objs)
    for o in log["created"]:
        if o in idle and o.removed:
            out.append(("closed-but-pooled", f"{o!r} was closed and is idle in the pool"))
        elif o not in idle and o.removed != 1 and o not in pool._used_objs:
            out.append(("not-closed-exactly-once", f"{o!r} is not in the pool and was closed {o.removed} time(s)"))
    return out


def pool_harnesses(tier):
    hs = []
    two = [("get-release", "get-release"), ("get-release", "get-destroy"), ("get-destroy", "get-destroy"),
           ("with-raises", "get-release"), ("with-raises", "with-raises"), ("with-ok", "get-destroy"),
           ("get-release-twice", "get-destroy"), ("with-raises-keep", "get-release"), ("with-raises-keep", "with-raises-keep"),
           ("with-raises-keep", "get-two"), ("get-release", "get-two")]
    for progs in two:
        for max_size in (1, 2):
            for prefill in (0, 1):
                hs.append(("H1", progs, max_size, prefill))
    for progs in two[:4]:
        for max_size in (1, 2):
            hs.append(("H1", progs, max_size, "stale"))
    three = [("get-release", "get-destroy", "clear"), ("with-raises", "get-release", "clear"),
             ("get-destroy", "clear", "clear"), ("get-release", "get-release", "get-destroy")]
    for progs in three:
        for max_size in (1, 2):
            hs.append(("H2", progs, max_size, 1))
    return hs


# ----------------------------------------------------------------------------- H3: PooledClient over simnet

CLIENT_OPS = ("get", "set", "fail", "quit", "get_many", "close", "badkey", "badkey_warm")


def client_program(op, pc, net=None):
    def run():
        if op == "get":
            return pc.get("a")
        if op == "set":
            return pc.set("b", b"v", noreply=False)
        if op == "get_many":
            return pc.get_many(["a", "b"])
        if op == "fail":
            try:
                return pc.incr("b", 1)  # 'b' holds text: the server answers CLIENT_ERROR, the client is destroyed
            except Exception as e:  # noqa
                return type(e).__name__
        if op == "quit":
            return pc.quit()
        if op == "badkey":
            try:
                return pc.get("bad key")  # refused before any I/O; the pool still disposes of the client it handed out
            except Exception as e:  # noqa
                return type(e).__name__
        if op == "badkey_warm":
            pc.get("a")  # the connection exists and goes back to the pool first
            try:
                return pc.get_many(["a", "bad key"])
            except Exception as e:  # noqa
                return type(e).__name__
        if op == "close":
            if net is not None:
                # sockets that already carried a request when close() starts: each belongs to a pooled client
                # (idle or checked out) at that moment, so close() is responsible for closing it
                net.verif_used_at_close = {e[3] for e in net.events if e[2] == "sendall" and e[3] >= 0}
            return pc.close()

    return run


def run_client(ch, ops_, max_pool_size, idle, granularity):
    ins = instrument(granularity)
    s = sched.Sched(ch)
    SHIM.current = s
    net = stacks.new_net(None, servers=(stacks.H1,))
    preload(net)
    net.sched = s
    pc = PooledClient(stacks.H1, socket_module=net.module(), max_pool_size=max_pool_size, pool_idle_timeout=idle,
                      lock_generator=lambda: sched.SimLock(s), default_noreply=False)
    pool = pc.client_pool
    holder = {}
    problems = []
    orig_get, orig_release, orig_destroy = pool.get, pool.release, pool.destroy

    def get():
        o = orig_get()
        t = s.current()
        if holder.get(id(o)) is not None and holder[id(o)] is not t:
            problems.append(f"a pooled connection was handed to thread {t.tid} while thread {holder[id(o)].tid} still holds it")
        holder[id(o)] = t
        return o

    def release(o, silent=True):
        holder[id(o)] = None
        return orig_release(o, silent)

    def destroy(o, silent=True):
        holder[id(o)] = None
        return orig_destroy(o, silent)

    pool.get, pool.release, pool.destroy = get, release, destroy

    def guard(sock, what):
        t = s.current()
        o = sock.owner
        if t is None or o is None:
            return
        h = holder.get(id(o))
        if what in ("sendall", "recv") and h is not t:
            problems.append(f"thread {t.tid} does {what} on a pooled connection it does not hold "
                            f"(holder: {'nobody' if h is None else 'thread %d' % h.tid})")

    net.socket_guard = guard

    def invariant():
        used, free = list(pool._used_objs), list(pool._free_objs)
        if len(used) + len(free) > pool.max_size:
            return f"pool holds {len(used)} used + {len(free)} idle connections, max_pool_size is {pool.max_size}"
        allo = used + free
        if len({id(o) for o in allo}) != len(allo):
            return "a connection is listed twice in the pool"
        if problems:
            return problems[0]
        return None

    s.invariant = invariant
    for op in ops_:
        s.add(client_program(op, pc, net))
    ins.sched = s
    try:
        s.run()
    finally:
        ins.sched = None
        net.sched = None
    return s, pc, net, problems


def run_client_fresh(ch, ops_, max_pool_size, idle, granularity):
    """H4: like H3, but the harness does not touch the PooledClient between construction and the threads'
    first operations (nothing is warmed up or looked at), so whatever the client sets up on first use is
    set up under the scheduler.  Checkout/release/destroy are observed at class level; the size and
    no-duplicates invariant is taken over every pool object the client has used."""
    ins = instrument(granularity)
    s = sched.Sched(ch)
    SHIM.current = s
    net = stacks.new_net(None, servers=(stacks.H1,))
    preload(net)
    net.sched = s
    pc = PooledClient(stacks.H1, socket_module=net.module(), max_pool_size=max_pool_size, pool_idle_timeout=idle,
                      lock_generator=lambda: sched.SimLock(s), default_noreply=False)
    holder = {}
    problems = []
    pools = []
    cls = pool_mod.ObjectPool
    orig = (cls.get, cls.release, cls.destroy)

    def get(self):
        if not any(p is self for p in pools):
            pools.append(self)
        o = orig[0](self)
        t = s.current()
        if holder.get(id(o)) is not None and holder[id(o)] is not t:
            problems.append(f"a pooled connection was handed to thread {t.tid} while thread {holder[id(o)].tid} still holds it")
        holder[id(o)] = t
        return o

    def release(self, o, silent=True):
        holder[id(o)] = None
        return orig[1](self, o, silent)

    def destroy(self, o, silent=True):
        holder[id(o)] = None
        return orig[2](self, o, silent)

    def guard(sock, what):
        t = s.current()
        o = sock.owner
        if t is None or o is None:
            return
        h = holder.get(id(o))
        if what in ("sendall", "recv") and h is not t:
            problems.append(f"thread {t.tid} does {what} on a pooled connection it does not hold "
                            f"(holder: {'nobody' if h is None else 'thread %d' % h.tid})")

    net.socket_guard = guard

    def invariant():
        used = [o for p in pools for o in p._used_objs]
        free = [o for p in pools for o in p._free_objs]
        limit = max_pool_size if max_pool_size is not None else 2 ** 31
        if len(used) + len(free) > limit:
            return (f"{len(used)} used + {len(free)} idle pooled connections exist"
                    f"{' (in %d pool objects)' % len(pools) if len(pools) > 1 else ''}, max_pool_size is {max_pool_size}")
        allo = used + free
        if len({id(o) for o in allo}) != len(allo):
            return "a connection is listed twice in the pool"
        if problems:
            return problems[0]
        return None

    s.invariant = invariant
    for op in ops_:
        s.add(client_program(op, pc, net))
    cls.get, cls.release, cls.destroy = get, release, destroy
    ins.sched = s
    try:
        s.run()
    finally:
        ins.sched = None
        net.sched = None
        cls.get, cls.release, cls.destroy = orig
    return s, pc, net, problems


def judge_client(s, pc, net, problems, ops_, max_pool_size):
    out = []
    pool = pc.client_pool
    if s.broken:
        out.append(("invariant", s.broken[0][1]))
    if s.deadlock is not None:
        out.append(("deadlock", f"threads {s.deadlock} wait for a lock nobody will release"))
        return out
    for t in s.threads:
        e = t.exc
        if e is None:
            continue
        if isinstance(e, RuntimeError) and str(e).startswith("Too many objects") and max_pool_size is not None:
            continue  # legal when every slot is taken (the message is checked in H1)
        out.append(("internal-error", f"thread {t.tid} ({ops_[t.tid]}) failed with {type(e).__name__}: {e}"))
    if out:
        return out
    if pool._used_objs:
        out.append(("still-checked-out", f"all threads are done but {len(pool._used_objs)} connection(s) are still checked out"))
    idle_socks = {c.sock.sid for c in pool._free_objs if c.sock is not None}
    for sk in net.socks:
        if sk.shadow:
            continue
        if sk.state != "closed" and sk.sid not in idle_socks:
            if "close" in ops_ and sk.sid in getattr(net, "verif_used_at_close", ()):
                out.append(("socket-in-use-at-close-never-closed", f"socket {sk.sid} had carried a request when close() "
                            f"was called, and is still open after every thread is done (close() closes every pooled "
                            f"client, idle or checked out)"))
            elif "close" in ops_:
                # known finding: PooledClient.close() while another thread has a client checked out
                out.append(("socket-leaked-after-close", f"socket {sk.sid} is open but belongs to no idle pooled client "
                            f"(a thread called close() while another one had a client checked out)"))
            else:
                out.append(("socket-leaked", f"socket {sk.sid} is open but belongs to no idle pooled client"))
        if sk.close_calls > 1 and False:
            out.append(("closed-twice", f"socket {sk.sid} was closed {sk.close_calls} times"))
    return out


def client_harnesses(tier):
    hs = []
    pairs = [("get", "set"), ("get", "fail"), ("fail", "fail"), ("get", "quit"), ("set", "get_many"), ("set", "quit"),
             ("quit", "quit"), ("fail", "quit")] if tier != "quick" else \
            [("get", "set"), ("get", "fail"), ("fail", "fail"), ("get", "quit"), ("set", "get_many")]
    for ops_ in pairs:
        for mps in (1, 2, None):
            hs.append(("H3", ops_, mps, 0))
    # the same pairs once more at a higher preemption bound but line granularity (tag "L" in the idle slot)
    # (quick tier only: in the thorough tier the pairs above already run at bound 2 with instruction granularity)
    for ops_ in [("get", "quit"), ("get", "fail"), ("set", "quit"), ("quit", "quit"), ("fail", "quit"), ("badkey", "get"),
                 ("badkey_warm", "set")]:
        for mps in (1, 2):
            if tier == "quick":
                hs.append(("H3", ops_, mps, "L"))
    # a call refused for an illegal key (the pool disposes of the client it handed out) next to an ordinary call
    for ops_ in [("badkey", "get"), ("badkey_warm", "set")]:
        for mps in (1, 2):
            hs.append(("H3", ops_, mps, 0))
    # first use of a fresh PooledClient by two threads at once
    for ops_ in [("get", "set"), ("get", "fail"), ("get", "quit")]:
        for mps in (1, 2):
            hs.append(("H4", ops_, mps, 0))
    hs.append(("H3", ("get", "set"), 2, 10))
    hs.append(("H3", ("get", "set", "fail"), 2, 0))
    hs.append(("H3", ("get", "close"), 2, 0))
    hs.append(("H3", ("fail", "close"), 2, 0))
    if tier == "quick":
        # close() finalising a connection while the call that holds it fails and closes it too: two preemptions
        hs.append(("H3", ("fail", "close"), 2, "L"))
    return hs


# ----------------------------------------------------------------------------- driver


def bounds(tier, h):
    kind = h[0]
    three = len(h[1]) >= 3
    if kind == "H3" and len(h) > 3 and h[3] == "L":
        return (2 if tier == "quick" else 3), "line"
    if tier == "quick":
        if kind == "H1":
            return 2, "instruction"
        if kind == "H2":
            return 1, "instruction"
        return (1, "instruction") if not three else (1, "line")
    if kind == "H1":
        # the get-two program has twice the scheduling points of the others: its pairs stay at bound 2
        # (bound 3 did not finish within 15 minutes on 16 cores)
        return (2 if "get-two" in h[1] else 3), "instruction"
    if kind == "H2":
        return 2, "instruction"
    return (2, "instruction") if not three else (2, "line")


def _worker(job, chk):
    h, tier = job
    bound, gran = bounds(tier, h)
    kind = h[0]

    def run(ch):
        if kind in ("H1", "H2"):
            return run_pool(ch, h[1], h[2], h[3], gran)
        if kind == "H4":
            return run_client_fresh(ch, h[1], h[2], h[3], gran)
        return run_client(ch, h[1], h[2], 0 if h[3] == "L" else h[3], gran)

    def outcome_of(res):
        if kind in ("H1", "H2"):
            s, pool, log, removed = res
            return (tuple(type(t.exc).__name__ if t.exc else "ok" for t in s.threads), len(log["created"]),
                    len(removed), len(pool._free_objs), len(pool._used_objs))
        s, pc, net, problems = res
        return (tuple(type(t.exc).__name__ if t.exc else repr(t.result)[:20] for t in s.threads), len(net.socks),
                sum(1 for k in net.socks if k.state == "closed"), len(pc.client_pool._free_objs))

    first = {"done": False}

    def on_exec(ch, res):
        chk.add()
        s = res[0]
        chk.maximum("max_scheduling_points", s.npoints)
        if ch.cost or any(c for c in ch.choices):
            chk.outcome((h, outcome_of(res)))
        if kind in ("H1", "H2"):
            bad = judge_pool(*res, h[1], h[2])
        else:
            bad = judge_client(*res, h[1], h[2])
        if not first["done"] and ch.cost == bound:
            first["done"] = True
            if h[1] in (("get-release", "get-destroy"), ("get", "fail")) and h[2] == 1:
                chk.sample({"harness": list(map(str, h)), "schedule": [list(map(str, x)) for x in ch.trace],
                            "scheduling_points": s.npoints, "outcome": repr(outcome_of(res))})
        for clause, text in bad[:1]:
            sig = f"{clause}|{kind}|{'+'.join(h[1])}|max={h[2]}"
            if sig not in chk.violations:
                ch2 = sched.CostChooser(tuple(ch.choices))
                res2 = run(ch2)
                if outcome_of(res2) != outcome_of(res) or ch2.choices != ch.choices:
                    raise runner.HarnessError("schedule replay is not deterministic")
            chk.violation(sig, f"{kind} threads {list(h[1])}, max_size={h[2]}, prefill/idle={h[3]}: {text} "
                          f"[schedule: {ch.trace}]",
                          {"harness": [h[0], list(h[1]), h[2], h[3]], "tier": tier, "choices": list(ch.choices)})

    n = sched.explore_costed(run, bound, on_exec)
    chk.count("harnesses")
    chk.count(f"schedules_{kind}", abs(n))


def run(chk):
    chk.rule = RULE
    chk.assumptions = ["preemption bound: schedules with more context switches away from a runnable thread are not explored",
                       "under the GIL a thread switch happens only between bytecode instructions, so instruction granularity is a superset of real schedules",
                       "3-thread PooledClient harnesses use line granularity"]
    jobs = [(h, chk.tier) for h in pool_harnesses(chk.tier) + client_harnesses(chk.tier)]
    chk.info["preemption_bounds"] = {"H1": bounds(chk.tier, ("H1", ("a", "b")))[0], "H2": bounds(chk.tier, ("H2", ("a", "b", "c")))[0],
                                     "H3": bounds(chk.tier, ("H3", ("a", "b")))[0]}
    runner.parallel(chk, _worker, jobs)


def replay(detail):
    h = detail["harness"]
    h = (h[0], tuple(h[1]), h[2], h[3])
    bound, gran = bounds(detail.get("tier", "quick"), h)
    ch = sched.CostChooser(tuple(detail["choices"]))
    if h[0] in ("H1", "H2"):
        res = run_pool(ch, h[1], h[2], h[3], gran)
        bad = judge_pool(*res, h[1], h[2])
    else:
        if h[0] == "H4":
            res = run_client_fresh(ch, h[1], h[2], h[3], gran)
        else:
            res = run_client(ch, h[1], h[2], 0 if h[3] == "L" else h[3], gran)
        bad = judge_client(*res, h[1], h[2])
    print("    schedule:", ch.trace)
    for t in res[0].threads:
        print(f"    thread {t.tid}: result={t.result!r} exc={t.exc!r}")
    return [t for c, t in bad]
