"""C05 - return values report the server's actual outcome over any history.

Engine E2: level-synchronous breadth-first search over all histories of one real Client
against the reference server, with de-duplication of canonical states.  On every transition the
real call's return value is compared with AbstractCache (vmc/abstractcache.py) stepped in
lockstep, and afterwards the server's contents are compared with the abstract contents.
"""

from __future__ import annotations

from pymemcache.client.base import Client, PooledClient
from pymemcache.exceptions import MemcacheClientError

from vmc import runner, simnet, stacks
from vmc.abstractcache import AbstractCache, Raises
from vmc.modelserver import Item, ModelServer

PROPERTY = "C05"
LEVEL = "model_checking"
RULE = (
    "BFS over histories of one Client against the reference server: universe keys {a, p:a} (the second begins with the configured prefix p:), values {1,x} "
    "(growth capped), expiry {0,5,-1}, ~110 events per state incl. clock advances; states de-duplicated by "
    "(per key value/flags/remaining ttl/token freshness, pending flush); every transition = one real call "
    "compared with AbstractCache + contents comparison; non-trivial transitions = all (each is a distinct "
    "(state, event) pair)"
)
KEYS = ("a", "p:a")  # the second key begins with the configured prefix: forced to collide if prefixing is wrong
TTL_CLAMP = 6
ITEM_MAX = 8  # a tiny item limit on both models, so that a refused item is part of the universe
BIG = b"toolarge!"
AbstractCache.item_max = ITEM_MAX
MAXLEN = {"quick": 2, "thorough": 3}
MAXNUM = 3


ABS_SOON = int(simnet.T0) + 4  # a few seconds after the histories start


def events(dn):
    """The event menu for a configuration with default_noreply = dn."""
    ev = []
    nrs = (None, (not dn))
    for k in KEYS:
        for v in (b"1", b"x"):
            for e in (0, 5, -1):
                for nr in nrs:
                    ev.append(("set", (k, v), dict(expire=e, noreply=nr)))
        for nr in nrs:
            ev.append(("set", (k, BIG), dict(noreply=nr)))
        for name in ("add", "replace"):
            for e in (0, 5):
                for nr in nrs:
                    ev.append((name, (k, b"x"), dict(expire=e, noreply=nr)))
        for name in ("append", "prepend"):
            for nr in nrs:
                ev.append((name, (k, b"1"), dict(noreply=nr)))
        for tok in ("remembered", "zero", "other"):
            for nr in (None, True):
                ev.append(("cas", (k, b"x", tok), dict(noreply=nr)))
        ev.append(("get", (k,), {}))
        ev.append(("gets", (k,), {}))
        for e in (0, 5):
            ev.append(("gat", (k,), dict(expire=e)))
            ev.append(("gats", (k,), dict(expire=e)))
        for e in (0, 5, -1):
            for nr in nrs:
                ev.append(("touch", (k,), dict(expire=e, noreply=nr)))
        for nr in nrs:
            ev.append(("delete", (k,), dict(noreply=nr)))
        for name in ("incr", "decr"):
            for nr in (None, True):
                ev.append((name, (k, 1), dict(noreply=nr)))
    ev.append(("get_many", ((KEYS[0], KEYS[1]),), {}))
    ev.append(("gets_many", ((KEYS[1], KEYS[0]),), {}))
    for nr in nrs:
        ev.append(("delete_many", ((KEYS[0], KEYS[1]),), dict(noreply=nr)))
        for e in (0, 5):
            ev.append(("set_many", ({KEYS[0]: b"1", KEYS[1]: b"x"},), dict(expire=e, noreply=nr)))
        for d in (0, 5):
            ev.append(("flush_all", (), dict(delay=d, noreply=nr)))
        ev.append(("set_many", ({KEYS[0]: BIG, KEYS[1]: b"x"},), dict(noreply=nr)))
        ev.append(("set_many", ({KEYS[0]: b"1", KEYS[1]: BIG},), dict(noreply=nr)))
    # noreply=None given explicitly is "use the default", like leaving it out; an empty value is a value
    for name, args in (("incr", (KEYS[0], 1)), ("decr", (KEYS[0], 1)), ("delete", (KEYS[0],)), ("touch", (KEYS[0],))):
        ev.append((name, args, dict(noreply="EXPLICIT-NONE")))
    for nr in nrs:
        ev.append(("set", (KEYS[0], b""), dict(noreply=nr)))
    # an expiry given as an absolute unix time (more than 30 days): the item dies at that moment, not later
    for nr in nrs:
        ev.append(("set", (KEYS[0], b"x"), dict(expire=ABS_SOON, noreply=nr)))
    ev.append(("touch", (KEYS[0],), dict(expire=ABS_SOON, noreply=False)))
    # the mapping protocol (a stored item is found whatever its value, a missing one is a KeyError)
    for k in KEYS:
        ev.append(("__getitem__", (k,), {}))
    ev.append(("__setitem__", (KEYS[0], b"x"), {}))
    ev.append(("__setitem__", (KEYS[0], b""), {}))
    ev.append(("__delitem__", (KEYS[0],), {}))
    # the caller's own placeholders for a miss, all different
    ev.append(("get", (KEYS[0],), dict(default="D")))
    ev.append(("gets", (KEYS[0],), dict(default="D", cas_default="C")))
    ev.append(("gat", (KEYS[0],), dict(expire=5, default="D")))
    ev.append(("gats", (KEYS[0],), dict(expire=5, default="D", cas_default="C")))
    # a key named more than once in one multi-key read
    ev.append(("get_many", ((KEYS[0], KEYS[1], KEYS[0]),), {}))
    ev.append(("gets_many", ((KEYS[1], KEYS[1]),), {}))
    ev.append(("advance", (1,), {}))
    ev.append(("advance", (10,), {}))
    return ev


def configs():
    base = [(prefix, dn, DEFAULT_VARIANT) for prefix in (b"", b"p:") for dn in (True, False)]
    # the same histories with every reply piece ending just before a line feed (so a reply's last line arrives
    # separately from what precedes it), and through a PooledClient
    return base + [(b"p:", False, "lf/client"), (b"", True, "lf/client"), (b"p:", False, "segment/pooled"),
                   (b"p:", True, "segment/pooled")]


DEFAULT_VARIANT = "segment/client"


# ---------------------------------------------------------------------------- state


def initial_states():
    """(name, server snap, abstract snap, tokens)"""
    out = []
    t0 = simnet.T0
    for name, items in (("empty", {}), ("max", {"a": b"18446744073709551615"}), ("zero", {"a": b"0", "p:a": b"1"})):
        a = AbstractCache(now=t0)
        srv_items = {}
        cas = 0
        for k, v in items.items():
            a._put(k, v, 0, 0)  # seeded directly: these items predate the tiny item limit
            cas += 1
            srv_items[k] = (v, 0, 0, cas)
        out.append((name, (srv_items, cas, None, t0), a.dump(), {}))
    return out


def make_world(prefix, dn, snap, variant=DEFAULT_VARIANT):
    srv_items, cas, flush, now = snap
    delivery, stack = variant.split("/")
    net = simnet.SimNet(now=now, delivery=delivery)  # 'segment': replies to pipelined commands arrive one by one
    stacks.PROXY.current = net.clock
    srv = net.add_server("h1", 11211, item_max=ITEM_MAX)
    for k, (v, f, e, c) in srv_items.items():
        srv.items[prefix + k.encode()] = Item(v, f, e, c)
    srv.cas_counter = cas
    srv.flush_deadline = flush
    cls = Client if stack == "client" else PooledClient
    client = cls(stacks.H1, socket_module=net.module(), key_prefix=prefix, default_noreply=dn)
    return net, srv, client


def server_snap(srv, prefix, now):
    items = {}
    for k, it in srv.items.items():
        items[k[len(prefix):].decode()] = (it.value, it.flags, it.exp, it.cas)
    return (items, srv.cas_counter, srv.flush_deadline, now)


def canon(ssnap, tokens):
    items, cas, flush, now = ssnap
    out = []
    for k in KEYS:
        it = items.get(k)
        if it is None or (it[2] != 0 and it[2] <= now) or (flush is not None and now >= flush):
            out.append((k, None, tokens.get(k) is not None))
            continue
        v, f, e, c = it
        ttl = None if e == 0 else min(e - now, TTL_CLAMP)
        tok = tokens.get(k)
        out.append((k, v, f, ttl, "none" if tok is None else ("current" if tok == c else "stale")))
    fl = None if flush is None or now >= flush else min(flush - now, TTL_CLAMP)
    return (tuple(out), fl)


def allowed(ev, ssnap, tier):
    """Growth caps: keep the universe finite."""
    name, args, kw = ev
    items = ssnap[0]
    if name in ("append", "prepend"):
        it = items.get(args[0])
        return it is None or len(it[0]) < MAXLEN[tier]
    if name == "incr":
        it = items.get(args[0])
        if it is not None and it[0].isdigit():
            n = int(it[0])
            return n < MAXNUM or n >= 2**64 - 2
    return True


def step(prefix, dn, state, ev, variant=DEFAULT_VARIANT):
    """Execute one event on the real client and on the abstract cache. Returns
    (new_state, got, want, content_diff)."""
    ssnap, asnap, tokens = state
    name, args, kw = ev
    kw = {k: (None if v == "EXPLICIT-NONE" else v) for k, v in kw.items() if v is not None or k != "noreply"}
    a = AbstractCache.load(asnap)
    if name == "advance":
        a.advance(args[0])
        items, cas, flush, now = ssnap
        return ((items, cas, flush, now + args[0]), a.dump(), tokens), None, None, None
    net, srv, client = make_world(prefix, dn, ssnap, variant)
    tokens = dict(tokens)
    real_args = list(args)
    if name == "cas":
        k, v, tok = args
        t = {"remembered": tokens.get(k, b"7777"), "zero": b"0", "other": b"999999"}[tok]
        real_args = [k, v, t]
    # effective noreply for the abstract cache
    akw = dict(kw)
    if "noreply" in akw or name in ("set", "add", "replace", "append", "prepend", "touch", "delete", "delete_many",
                                    "set_many", "flush_all", "cas", "incr", "decr"):
        nr = kw.get("noreply")
        if nr is None:
            nr = False if name in ("cas", "incr", "decr") else dn
        akw["noreply"] = nr
    net.call = 1
    try:
        got = getattr(client, name)(*[list(x) if isinstance(x, tuple) and name.endswith("many") else x for x in real_args], **kw)
    except MemcacheClientError as e:
        got = Raises("MemcacheClientError") if type(e) is MemcacheClientError else Raises(type(e).__name__)
    except Exception as e:
        got = Raises(type(e).__name__)
    if name == "__getitem__":
        want = a.get(args[0])
        if want is None:
            want = Raises("KeyError")
    elif name == "__setitem__":
        a.set(args[0], args[1], noreply=True)
        want = None
    elif name == "__delitem__":
        a.delete(args[0], noreply=True)
        want = None
    else:
        want = getattr(a, name)(*[list(x) if isinstance(x, tuple) and name.endswith("many") else x for x in real_args], **akw)
    # a follow-up on the same connection: each call must still get the answer to its own request
    probe_bad = None
    if not isinstance(got, Raises) or got == want:
        try:
            pg = client.gets(KEYS[0])
            pd = client.delete("zz-absent", noreply=False)
        except Exception as e:
            pg, pd = Raises(type(e).__name__), None
        pw = a.gets(KEYS[0])
        if not (pg == pw and pd is False):
            probe_bad = (pg, pd, pw)
    if name in ("gets", "gats") and isinstance(got, tuple) and isinstance(got[1], bytes) and got[1].isdigit():
        tokens[args[0]] = int(got[1])
    if name == "gets_many" and isinstance(got, dict):
        for k, (v, c) in got.items():
            tokens[k] = int(c)
    now = net.clock.now
    new_ssnap = server_snap(srv, prefix, now)
    # contents comparison
    sc = {}
    for k, (v, f, e, c) in srv.snapshot().items():
        sc[k[len(prefix):].decode()] = (v, f, None if e == 0 else e - now, c)
    ac = a.contents()
    diff = None
    if sc != ac:
        diff = (sc, ac)
    if probe_bad is not None and diff is None and same(got, want):
        diff = ("follow-up on the same connection: gets(%r) -> %r, delete('zz-absent') -> %r" % (KEYS[0], probe_bad[0], probe_bad[1]),
                "abstract map: gets -> %r, delete -> False" % (probe_bad[2],))
    return (new_ssnap, a.dump(), tokens), got, want, diff


def same(got, want):
    if isinstance(want, Raises) or isinstance(got, Raises):
        return got == want
    return got == want and type(got) is type(want)


def _expand(job, chk):
    """Expand a batch of frontier states; returns via chk.info-free channel: stash in violations? No:
    results are collected in chk.counters and the special list chk.samples is not used; new states are
    returned through chk.classes as ('NEW', canon, state) tuples."""
    (prefix, dn, variant), tier, batch = job
    evs = events(dn)
    for state, hist in batch:
        for i, ev in enumerate(evs):
            if not allowed(ev, state[0], tier):
                continue
            new, got, want, diff = step(prefix, dn, state, ev, variant)
            chk.add()
            chk.count("transitions")
            if ev[0] != "advance":
                chk.count("traces_validated_against_impl")
                bad = None
                if not same(got, want):
                    bad = ("return-value", f"returned {got!r}, the abstract map with expiry and cas says {want!r}")
                elif diff is not None:
                    bad = ("contents", f"left the server holding {diff[0]!r}, the abstract map holds {diff[1]!r}")
                if bad:
                    nr = ev[2].get("noreply")
                    sig = f"{bad[0]}|{ev[0]}|noreply={nr}|default_noreply={dn}|state={_stclass(state, ev)}"
                    if variant != DEFAULT_VARIANT:
                        sig += "|" + variant
                    cname = "PooledClient" if variant.endswith("pooled") else "Client"
                    chk.violation(sig, f"{cname}(key_prefix={prefix!r}, default_noreply={dn}){'' if variant == DEFAULT_VARIANT else ' [' + variant + ']'}.{ev[0]}{ev[1]!r} {ev[2]} "
                                  f"after history {hist + (i,)} {bad[1]}",
                                  {"prefix": prefix.decode(), "dn": dn, "variant": variant, "history": list(hist), "event": i, "start": hist[0] if hist else None})
            k = canon(new[0], new[2])
            chk.classes.add(("NEW", k, _freeze(new), hist + (i,)))


def _stclass(state, ev):
    """Coarse class of the target key's state, for signatures."""
    args = ev[1]
    key = args[0] if args and isinstance(args[0], str) else None
    if key is None:
        return "-"
    items, cas, flush, now = state[0]
    it = items.get(key)
    if it is None or (it[2] != 0 and it[2] <= now):
        return "absent"
    if ev[0] == "cas":
        tok = state[2].get(key)
        return "present/" + args[2] + ("-current" if tok == it[3] else "-stale" if tok is not None else "-none")
    return "numeric" if it[0].isdigit() else "text"


def _freeze(state):
    ssnap, asnap, tokens = state
    items, cas, flush, now = ssnap
    am, av, af, an = asnap
    return (tuple(sorted(items.items())), cas, flush, now, tuple(sorted(am.items())), av, af, an,
            tuple(sorted(tokens.items())))


def _thaw(fr):
    items, cas, flush, now, am, av, af, an, tokens = fr
    return ((dict(items), cas, flush, now), (dict(am), av, af, an), dict(tokens))


def run(chk):
    chk.rule = RULE
    chk.assumptions = ["ModelServer is faithful to memcached (flush/expiry applied lazily at the next command)",
                       "AbstractCache encodes the documented contract; append/prepend are judged as stored-or-not"]
    max_depth = 3 if chk.tier == "quick" else 6
    total_states = 0
    all_fix = True
    for cfg in configs():
        prefix, dn, variant = cfg
        seen = {}
        frontier = []
        for name, ssnap, asnap, tokens in initial_states():
            st = (ssnap, asnap, tokens)
            k = canon(ssnap, tokens)
            if k not in seen:
                seen[k] = (name,)
                frontier.append((st, (name,)))
        depth = 0
        while frontier and depth < max_depth:
            depth += 1
            n = max(1, len(frontier) // (runner.NPROC * 4) + 1)
            batches = [frontier[i:i + n] for i in range(0, len(frontier), n)]
            sub = chk.fresh()
            runner.parallel(sub, _expand, [(cfg, chk.tier, b) for b in batches])
            news = [c for c in sub.classes if isinstance(c, tuple) and c and c[0] == "NEW"]
            sub.classes = set()
            part = sub.to_partial()
            chk.merge(part)
            frontier = []
            for _, k, fr, hist in sorted(news, key=lambda x: (len(x[3]), x[3])):
                if k not in seen:
                    seen[k] = hist
                    frontier.append((_thaw(fr), hist))
        if frontier:
            all_fix = False
            chk.cap(f"depth cap {max_depth} hit for config prefix={prefix!r} default_noreply={dn} {variant} "
                    f"({len(frontier)} unexpanded states)")
        total_states += len(seen)
        chk.maximum("max_depth", depth)
        for k in list(seen)[:3000]:
            chk.outcome((prefix, dn, variant, k))
        if cfg == (b"p:", False, DEFAULT_VARIANT):
            longest = max(seen.values(), key=len)
            evs = events(dn)
            chk.sample({"config": {"key_prefix": "p:", "default_noreply": dn}, "start": longest[0],
                        "history": [f"{evs[i][0]}{evs[i][1]}{evs[i][2]}" for i in longest[1:]]})
    chk.counters["states"] = total_states
    chk.info["fixpoint_reached"] = all_fix


def replay(detail):
    prefix, dn = detail["prefix"].encode(), detail["dn"]
    variant = detail.get("variant", DEFAULT_VARIANT)
    evs = events(dn)
    hist = detail["history"]
    start = hist[0]
    state = None
    for name, ssnap, asnap, tokens in initial_states():
        if name == start:
            state = (ssnap, asnap, tokens)
    out = []
    for i in list(hist[1:]) + [detail["event"]]:
        new, got, want, diff = step(prefix, dn, state, evs[i], variant)
        print(f"    {evs[i][0]}{evs[i][1]}{evs[i][2]} -> {got!r} (abstract: {want!r})")
        if evs[i][0] != "advance" and (not same(got, want) or diff is not None):
            out.append(f"{evs[i][0]}{evs[i][1]}: got {got!r}, want {want!r}, contents diff {diff!r}")
        state = new
    return out
