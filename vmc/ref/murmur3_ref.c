/* Reference for property C14: a transcription of Austin Appleby's public-domain
 * MurmurHash3_x86_32 (SMHasher, MurmurHash3.cpp) into plain C with native uint32_t
 * arithmetic.  Only the shape of the original is kept: getblock32 over the 4-byte blocks
 * (little-endian load, made explicit here so that the result does not depend on the host
 * byte order or on unaligned access), the fall-through tail switch, fmix32.
 *
 * Built by bin/setup (and by vmc/ref/murmur3.py on demand) into build/libmurmur3ref.so.
 */
#include <stdint.h>
#include <stddef.h>

static uint32_t rotl32(uint32_t x, int8_t r) { return (x << r) | (x >> (32 - r)); }

static uint32_t getblock32(const uint8_t *p, long i)
{
    const uint8_t *q = p + 4 * i;
    return (uint32_t)q[0] | ((uint32_t)q[1] << 8) | ((uint32_t)q[2] << 16) | ((uint32_t)q[3] << 24);
}

static uint32_t fmix32(uint32_t h)
{
    h ^= h >> 16;
    h *= 0x85ebca6b;
    h ^= h >> 13;
    h *= 0xc2b2ae35;
    h ^= h >> 16;
    return h;
}

uint32_t murmur3_x86_32_ref(const uint8_t *data, int len, uint32_t seed)
{
    const long nblocks = len / 4;
    uint32_t h1 = seed;
    const uint32_t c1 = 0xcc9e2d51;
    const uint32_t c2 = 0x1b873593;
    long i;

    /* body */
    for (i = 0; i < nblocks; i++) {
        uint32_t k1 = getblock32(data, i);
        k1 *= c1;
        k1 = rotl32(k1, 15);
        k1 *= c2;
        h1 ^= k1;
        h1 = rotl32(h1, 13);
        h1 = h1 * 5 + 0xe6546b64;
    }

    /* tail */
    {
        const uint8_t *tail = data + nblocks * 4;
        uint32_t k1 = 0;
        switch (len & 3) {
        case 3: k1 ^= (uint32_t)tail[2] << 16; /* fall through */
        case 2: k1 ^= (uint32_t)tail[1] << 8;  /* fall through */
        case 1: k1 ^= tail[0];
                k1 *= c1; k1 = rotl32(k1, 15); k1 *= c2; h1 ^= k1;
        }
    }

    /* finalization */
    h1 ^= (uint32_t)len;
    return fmix32(h1);
}

/* Batch form used by the enumerator: n inputs of equal length `len`, packed back to back in
 * `data`; every input is hashed under every one of the `nseeds` seeds; out[i*nseeds + s]. */
void murmur3_x86_32_ref_batch(const uint8_t *data, int len, long n,
                              const uint32_t *seeds, int nseeds, uint32_t *out)
{
    long i; int s;
    for (i = 0; i < n; i++)
        for (s = 0; s < nseeds; s++)
            out[i * nseeds + s] = murmur3_x86_32_ref(data + (size_t)i * len, len, seeds[s]);
}
