"""Plain reproducers of the defects recorded in known_findings.json with status "known" (found by the
checks, not repaired - see DESIGN.md section 6.2 for why).  Each test states the behaviour the property
demands; it is marked xfail(strict=True): the file passes while the defect is there and fails loudly,
asking for the entry to be turned into a "fixed:" line, once the library behaves.
"""
import pytest

from fakes import Module

from pymemcache.client.base import Client, PooledClient
from pymemcache.exceptions import MemcacheError, MemcacheIllegalInputError
from pymemcache import serde as S

known = pytest.mark.xfail(strict=True, reason="recorded in /verif/known_findings.json")


@known
def test_C02_empty_key_with_empty_prefix_is_not_sent():
    # signature: malformed-request|empty key with empty prefix
    m = Module([b"END\r\n"])
    c = Client("/s", socket_module=m)
    with pytest.raises(MemcacheIllegalInputError):
        c.get("")  # what goes out instead is b"get \r\n", a command line without a key
    assert not m.socks or m.socks[0].sent == b""


@known
def test_C08_close_while_a_client_is_checked_out_leaves_no_socket_open():
    # signatures: socket-leaked-after-close|H3|get+close|max=2 and internal-error|H3|get+close|max=2
    # the schedule, sequentially: thread A checks a client out, thread B calls close(), A goes on
    m = Module([b"END\r\n"], [b"END\r\n"])
    p = PooledClient("/s", socket_module=m, max_pool_size=2)
    with p.client_pool.get_and_release(destroy_on_fail=True) as client:
        client.get("warm")  # A is connected
        p.close()  # B: clear() closes A's client under its user and forgets it
        client.get("a")  # A reconnects on a client the pool no longer knows
    # A's release() was silently ignored; its second socket is open and belongs to nobody
    assert [s.closed for s in m.socks] == [1, 1]


@known
@pytest.mark.parametrize("make", [lambda: S.PickleSerde(), lambda: S.CompressedSerde(),
                                  lambda: S.LegacyWrappingSerde(S.python_memcache_serializer,
                                                                S.python_memcache_deserializer)])
def test_C15_top_level_str_with_a_lone_surrogate_round_trips(make):
    # signatures: serialize-raises|<serde>|str|UnicodeEncodeError|...
    s = make()
    value, flags = s.serialize("k", "\ud800")  # raises UnicodeEncodeError; ["\ud800"] pickles fine
    assert s.deserialize("k", value, flags) == "\ud800"


@known
def test_C19_endpoint_that_answers_ERROR_gives_a_memcached_error():
    # signatures: error-endpoint|constructor|TimeoutError, error-endpoint|reconfigure_nodes|TimeoutError
    from pymemcache.client.ext.aws_ec_client import AWSElastiCacheHashClient

    m = Module([b"ERROR\r\n"])  # afterwards the endpoint stays silent: recv() times out
    with pytest.raises(MemcacheError):
        # waits for "\n\r\nEND\r\n", which an error line never contains -> socket.timeout
        AWSElastiCacheHashClient("ep.cfg.cache.amazonaws.com:11211", socket_module=m, timeout=1)
