"""C13 - HashClient failover: bounded probing, eviction, rerouting, recovery.

Engine E2: breadth-first search with state de-duplication over event histories of a real
HashClient (real inner Clients over simnet, virtual clock bound into pymemcache.client.hash).
Events: a key-addressed operation on a key owned by server i, a clock advance below/above the
two timeouts, server i starts failing (refused / timeout / reset) or recovers.  Trace
properties (rate limits over sliding windows) are folded into the state as monitor variables
and checked on every transition; from every newly reached state the recovery suffix is
executed on a replayed copy.
"""

from __future__ import annotations

import collections
import socket as realsocket

from pymemcache.client.hash import HashClient
from pymemcache.exceptions import MemcacheError, MemcacheServerError

from vmc import runner, simnet, stacks
from vmc.ref.placement import rendezvous
from vmc.strictparse import parse_all

PROPERTY = "C13"
LEVEL = "model_checking"
RT, DT = 1, 6  # retry_timeout < dead_timeout; dead_timeout spans several retry gaps so that one retry too many shows
CLAMP = DT + 1
ITEM_MAX = 64  # the simulated servers refuse larger values with SERVER_ERROR object too large for cache
ADVANCES = (1, 2, 7)  # <= retry_timeout, > retry_timeout, > dead_timeout
RULE = (
    "BFS over HashClient histories (events: op on a key owned by server i; advance 1/2/7 with retry_timeout=1, "
    "dead_timeout=6; server i starts failing or recovers; failure kind refused/reset/unreachable [thorough also timeout] is a configuration); state = history "
    "replayed on fresh objects; canonical = rotation, per-server failing mode + failover bookkeeping ages + monitor "
    "contact ages (all clamped at dead_timeout+1); every transition runs the real code; distinct_nontrivial = "
    "canonical states in which some server is failing, failed or dead"
)


def configs(tier):
    modes = ["refused", "reset", "unreach"] + (["timeout"] if tier != "quick" else [])
    out = []
    for n in (2, 3):
        for ra in (0, 1, 2):
            for ie in (False, True):
                for mode in modes:
                    out.append((n, ra, ie, mode))
    # the same servers given as strings in their non-canonical spellings ("host", "host:port")
    for ra in (0, 1):
        out.append((2, ra, False, "refused+strings"))
    # a hasher of the user's own with only the documented interface
    for ra in (0, 1):
        for ie in (False, True):
            out.append((2, ra, ie, "refused+minhasher"))
    return out


def servers(n):
    return [("h%d" % (i + 1), 11211) for i in range(n)]


def owned_keys(n):
    """One key per server such that the reference rule places it there in the full rotation,
    a second key per server for the multi-key operations, and a third for the refused oversized set."""
    names = ["%s:%s" % s for s in servers(n)]
    out = {i: [] for i in range(n)}
    j = 0
    while any(len(v) < 3 for v in out.values()):
        k = "k%d" % j
        j += 1
        i = names.index(rendezvous(names, k))
        if len(out[i]) < 3:
            out[i].append(k)
    return out


def event_menu(n, tier):
    # get/set/delete share one code path (_run_cmd); get_many and set_many have their own
    # set_big: a value the (healthy) server refuses with SERVER_ERROR - a per-request error, not a server failure
    # get_garbled: the (healthy) server's reply header is garbled - the reader fails with a ValueError, which is
    # the server's own fault for that one request: no failure record, and nothing escapes with ignore_exc
    # delete_many: the one multi-key call that has no result to merge (its key is one nothing is stored under)
    ops = ["get", "get_many", "set_many", "set_big", "get_garbled", "delete_many"] + (["set", "delete"] if tier != "quick" else [])
    ev = []
    for i in range(n):
        for o in ops:
            ev.append(("op", o, i))
    for d in ADVANCES:
        ev.append(("adv", d))
    for i in range(n):
        ev.append(("fail", i))
        ev.append(("heal", i))
    return ev


class MinimalHasher:
    """A user-supplied hasher with exactly the interface HashClient documents (add_node, remove_node,
    get_node) and nothing else; it places keys by the same published rule."""

    def __init__(self):
        self._ring = []

    def add_node(self, node):
        if node not in self._ring:
            self._ring.append(node)

    def remove_node(self, node):
        self._ring.remove(node)

    def get_node(self, key):
        return rendezvous(self._ring, key) if self._ring else None


def _members(hasher):
    return hasher._ring if isinstance(hasher, MinimalHasher) else hasher.nodes


class World:
    def __init__(self, cfg):
        n, ra, ie, mode = cfg
        strings = mode.endswith("+strings")
        minimal = mode.endswith("+minhasher")
        mode = mode.split("+")[0]
        self.mode = mode
        self.cfg = cfg
        self.n = n
        self.srvs = servers(n)
        self.addr = [("tcp", h, p) for h, p in self.srvs]
        self.names = ["%s:%s" % s for s in self.srvs]
        self.net = stacks.new_net(None, servers=self.srvs)
        self.keys = owned_keys(n)
        allkeys = [k for ks in self.keys.values() for k in ks[:2]]
        pre = b"".join(b"set " + k.encode() + b" 0 0 1\r\nv\r\n" for k in allkeys)
        for srv in self.net.servers.values():
            srv.item_max = ITEM_MAX
            for it in parse_all(pre)[0]:
                srv.execute(it)
        specs = [h if i == 0 else "%s:%s" % (h, p) for i, (h, p) in enumerate(self.srvs)] if strings else self.srvs
        self.hc = HashClient(specs, socket_module=self.net.module(), retry_attempts=ra, retry_timeout=RT,
                             dead_timeout=DT, ignore_exc=ie, default_noreply=False, connect_timeout=1, timeout=1,
                             **({"hasher": MinimalHasher} if minimal else {}))
        self.seq = 0
        # the rotation as it is at the moment a key is routed (a server can be revived and evicted
        # again within one call, so the rotation before/after the call is not enough)
        self.rot_seen = []
        orig_get_node = self.hc.hasher.get_node

        def get_node(key):
            self.rot_seen.append(set(map(str, _members(self.hc.hasher))))
            return orig_get_node(key)

        self.hc.hasher.get_node = get_node
        self.contacts = {a: [] for a in self.addr}  # contacts (time) made while the server was failing
        self.ever_failed = set()
        self.ncall = 0

    # ------------------------------------------------------------------ state
    def canon(self):
        hc, now = self.hc, self.net.clock.now
        per = []
        for i, a in enumerate(self.addr):
            srv = self.srvs[i]
            f = hc._failed_clients.get(srv)
            d = hc._dead_clients.get(srv)
            per.append((
                self.net.failing.get(a),
                None if f is None else (f["attempts"], min(now - f["failed_time"], CLAMP)),
                None if d is None else min(now - d, CLAMP),
                tuple(sorted(min(now - t, CLAMP) for t in self.contacts[a] if now - t <= DT)),
                i in self.ever_failed,
            ))
        return (tuple(sorted(map(str, _members(hc.hasher)))), tuple(per), min(now - hc._last_dead_check_time, CLAMP))

    def troubled(self):
        hc = self.hc
        return bool(self.net.failing or hc._failed_clients or hc._dead_clients)

    # ------------------------------------------------------------------ events
    def apply(self, ev):
        """Returns a list of (clause, text)."""
        kind = ev[0]
        net = self.net
        if kind == "adv":
            net.clock.advance(ev[1])
            return []
        if kind == "fail":
            a = self.addr[ev[1]]
            if a not in net.failing:
                self.contacts[a] = []  # windows "throughout which the server was failing" start now
            net.failing[a] = self.mode
            self.ever_failed.add(ev[1])
            # an established connection to a failing server is gone too
            for s in net.socks:
                if s.addr == a and s.conn is not None:
                    s.conn.reset = True
            return []
        if kind == "heal":
            a = self.addr[ev[1]]
            net.failing.pop(a, None)
            self.contacts[a] = []
            for s in net.socks:
                if s.addr == a and s.conn is not None and s.state == "connected":
                    pass
            return []
        return self.op(ev[1], ev[2])

    def op(self, name, i):
        hc, net = self.hc, self.net
        n, ra, ie, mode = self.cfg
        self.ncall += 1
        net.call = self.ncall
        k1, k2, k3 = self.keys[i]
        rot0 = set(map(str, _members(hc.hasher)))
        failed0 = set(hc._failed_clients)
        dead0 = set(hc._dead_clients)
        ev0 = len(net.events)
        self.rot_seen = []
        try:
            if name == "get":
                res = ("ret", hc.get(k1))
            elif name == "set":
                res = ("ret", hc.set(k1, b"v", noreply=False))
            elif name == "delete":
                res = ("ret", hc.delete(k1, noreply=False))
                # put it back so that later reads have something to find
            elif name == "get_many":
                res = ("ret", hc.get_many([k1, k2]))
            elif name == "set_many":
                res = ("ret", hc.set_many({k1: b"v", k2: b"v"}, noreply=False))
            elif name == "delete_many":
                res = ("ret", hc.delete_many([k3], noreply=False))
            elif name == "set_big":
                res = ("ret", hc.set(k3, b"x" * (ITEM_MAX + 1), noreply=False))
            elif name == "get_garbled":
                net.force_reply = "bad_size"
                try:
                    res = ("ret", hc.get(k1))
                finally:
                    net.force_reply = None
        except Exception as e:
            res = ("exc", e)
        events = net.events[ev0:]
        now = net.clock.now
        touched = []
        for e in events:
            if e[2] in ("connect", "connect_fail", "sendall", "sendall_fail") and e[3] >= 0:
                a = net.socks[e[3]].addr
                if a not in touched:
                    touched.append(a)
        bad = []
        desc = f"{name} on a key owned by {self.names[i]}"
        rot1 = set(map(str, _members(hc.hasher)))
        unknown = (rot0 | rot1) - set(self.names)
        if unknown:
            bad.append(("rotation-holds-unknown-node", f"{desc}: the rotation contains {sorted(unknown)}, the servers are "
                        f"{self.names} (name derived from the normalised (host, port))"))
        # M7: what may escape
        if res[0] == "exc":
            e = res[1]
            if ie:
                bad.append(("exception-escapes-ignore_exc", f"{desc} raised {e!r} although ignore_exc is set"))
            elif isinstance(e, OSError):
                pass  # the failing server's own error
            elif name == "set_big" and isinstance(e, MemcacheServerError) and "too large" in str(e):
                pass  # the server's own refusal of this one request
            elif name == "get_garbled" and isinstance(e, ValueError):
                pass  # the server's own garbled reply
            elif isinstance(e, MemcacheError) and "All servers seem to be down" in str(e):
                pass
            else:
                bad.append(("internal-error-escapes", f"{desc} raised {type(e).__name__}: {e}"))
        # contacts while failing: rate limits.  Every connection attempt counts (a call that tries the
        # failing server twice has contacted it twice), as does a request sent on a connection that was open
        attempts = {}
        opened = set()
        for e in events:
            if e[3] < 0:
                continue
            a = net.socks[e[3]].addr
            if e[2] in ("connect", "connect_fail"):
                attempts[a] = attempts.get(a, 0) + 1
                opened.add(e[3])
            elif e[2] in ("sendall", "sendall_fail") and e[3] not in opened:
                attempts[a] = attempts.get(a, 0) + 1
                opened.add(e[3])
        for a in touched:
            if a in net.failing:
                lst = self.contacts[a]
                lst.extend([now] * max(1, attempts.get(a, 1)))
                in_rt = sum(1 for t in lst if t >= now - RT)
                in_dt = sum(1 for t in lst if t >= now - DT)
                idx = self.addr.index(a)
                if in_rt > 2:
                    bad.append(("contacts-exceed-retry-window",
                                f"failing server {self.names[idx]} was contacted {in_rt} times within {RT}s "
                                f"(retry_timeout) - limit 2; last by {desc}"))
                if in_dt > ra + 2:
                    bad.append(("contacts-exceed-dead-window",
                                f"failing server {self.names[idx]} was contacted {in_dt} times within {DT}s "
                                f"(dead_timeout) - limit retry_attempts+2 = {ra + 2}; last by {desc}"))
                self.contacts[a] = [t for t in lst if now - t <= DT]
        # M3: a single failure does not evict when retries are configured
        if ra > 0:
            for idx, a in enumerate(self.addr):
                srv = self.srvs[idx]
                if a in touched and a in net.failing and srv not in failed0 and srv not in dead0 \
                        and self.names[idx] in rot0 and self.names[idx] not in rot1:
                    bad.append(("evicted-by-single-failure", f"{self.names[idx]} left the rotation after its first "
                                f"failure although retry_attempts={ra}"))
        # M5: a server that never failed is never bypassed
        owner = self.addr[i]
        if i not in self.ever_failed:
            if owner not in touched:
                bad.append(("healthy-owner-bypassed", f"{desc}: the owner never failed but was not contacted "
                            f"(contacted: {touched})"))
            elif res[0] != "ret" or (name == "get" and res[1] != b"v") or (name == "set" and res[1] is not True) \
                    or (name == "get_many" and res[1] != {k1: b"v", k2: b"v"}) or (name == "set_many" and res[1] != []):
                if name not in ("delete", "set_big", "get_garbled", "delete_many"):
                    bad.append(("healthy-owner-wrong-result", f"{desc}: owner never failed, result {res!r}"))
        # M4: while the owner is out of rotation, its keys are served by the servers in rotation
        # (any contacted server must have been in the rotation at the moment the key was routed)
        if self.names[i] not in rot0 and self.names[i] not in rot1 and owner not in touched:
            routed = set().union(*self.rot_seen) if self.rot_seen else set()
            outside = [a for a in touched if self.names[self.addr.index(a)] not in (rot0 | rot1 | routed)]
            if outside:
                bad.append(("rerouted-outside-rotation", f"{desc}: contacted {outside}, not in rotation {sorted(rot0)}"))
            healthy_in_rot = [idx for idx in range(n) if self.names[idx] in rot0 and idx not in self.ever_failed]
            if healthy_in_rot and not touched and not unknown:
                # some never-failed server is in rotation: the reference rule over the rotation decides
                target = rendezvous(sorted(rot0), k1)
                tidx = self.names.index(target)
                if tidx in healthy_in_rot:
                    bad.append(("not-rerouted", f"{desc}: owner is out of rotation, the rule picks healthy "
                                f"{target}, but no server was contacted (result {res!r})"))
        return bad

    def recovery_check(self, steady, multi=False):
        """Suffix: all servers healthy, then two dead_timeout periods of traffic - either (steady=False)
        two long pauses each followed by one operation per server, or (steady=True) one operation per
        server every second; the operations are single-key gets or (multi=True) only multi-key calls,
        get_many and set_many in turn.  Afterwards rotation and placement must be the original ones."""
        net, hc = self.net, self.hc
        for a in list(net.failing):
            net.failing.pop(a)
        steps = [DT + 1] * 2 if not steady else [1] * (2 * DT + 2)
        for step, dt in enumerate(steps):
            net.clock.advance(dt)
            for i in range(self.n):
                self.ncall += 1
                net.call = self.ncall
                k1, k2 = self.keys[i][:2]
                try:
                    if not multi:
                        hc.get(k1)
                    elif (step + i) % 2:
                        hc.set_many({k1: b"v", k2: b"v"}, noreply=False)
                    else:
                        hc.get_many([k1, k2])
                except Exception:
                    pass
        rot = sorted(map(str, _members(hc.hasher)))
        bad = []
        how = "one operation per server every second" if steady else "two pauses, each followed by one operation per server"
        if multi:
            how += ", multi-key calls only"
        if rot != sorted(self.names):
            bad.append(("no-recovery" + ("-under-steady-traffic" if steady else "") + ("-multi-key" if multi else ""),
                        f"after all servers recovered and two dead_timeout periods of traffic ({how}) the rotation "
                        f"is {rot}, not {sorted(self.names)}"))
        else:
            for i in range(self.n):
                self.ncall += 1
                net.call = self.ncall
                ev0 = len(net.events)
                try:
                    r = hc.get(self.keys[i][0])
                except Exception as e:
                    r = e
                t = {net.socks[e[3]].addr for e in net.events[ev0:] if e[2] in ("connect", "sendall") and e[3] >= 0}
                if t != {self.addr[i]} or r != b"v":
                    bad.append(("placement-not-restored", f"after recovery ({how}) a get on {self.names[i]}'s key contacted {t} "
                                f"and returned {r!r}"))
        return bad


def build(cfg, menu, hist):
    w = World(cfg)
    for e in hist:
        w.apply(menu[e])
    return w


def _grid_worker(job, chk):
    """Two overlapping failures on a time grid (complements the BFS, whose depth bound keeps it to
    shallow double failures): server A fails at t=0 and is driven to eviction as fast as the retry
    policy allows; server B fails at time tb; traffic on B's key at every subset of <= 4 grid times
    (optionally twice at the last one).  The monitors of World.op run on every operation."""
    (ra, ie, tb), tier = job
    import itertools
    cfg = (2, ra, ie, "refused")
    T = 12 if tier == "quick" else 14
    a_times = [0] + [2 * (k + 1) for k in range(ra)] + [2 * ra]  # first failure, ra retries, the evicting call
    times = list(range(tb, T + 1))
    nhist = 0
    for size in range(1, 5 if tier == "quick" else 6):
        for sb in itertools.combinations(times, size):
            for double in (False, True):
                w = World(cfg)
                b_times = list(sb) + ([sb[-1]] if double else [])
                plan = sorted([(t, 0, "A") for t in a_times] + [(t, 1, "B") for t in b_times])
                w.apply(("fail", 0))
                now = 0
                failed_b = False
                trace = []
                bad = []
                for t, _, who in plan:
                    if tb <= t and not failed_b:
                        if tb > now:
                            w.apply(("adv", tb - now))
                            now = tb
                        w.apply(("fail", 1))
                        failed_b = True
                    if t > now:
                        w.apply(("adv", t - now))
                        now = t
                    trace.append((t, who))
                    bad = w.op("get", 0 if who == "A" else 1)
                    if bad:
                        break
                nhist += 1
                chk.add()
                chk.outcome(("grid", ra, ie, tb, tuple(b_times)))
                for clause, text in bad:
                    chk.violation(f"{clause}|two-failures|ignore_exc={ie}|retry_attempts={ra}",
                                  text + f" [two overlapping failures: h1 fails at 0, h2 at {tb}; gets at (time, server) {trace}; "
                                  f"retry_attempts={ra} ignore_exc={ie}]",
                                  {"grid": [ra, ie, tb, b_times], "tier": tier})
    chk.count("two_failure_histories", nhist)
    chk.count("transitions", nhist)
    chk.count("traces_validated_against_impl", nhist)


def _grid1_worker(job, chk):
    """One failure on a time grid: the server fails at 0 and recovers at `th`; traffic on its key at
    every subset of <= 5 grid times in 0..T.  Reaches single-server histories far deeper than the BFS
    (eviction, recovery, revival after dead_timeout) at a small cost."""
    (ra, ie, th, mode), tier = job
    import itertools
    cfg = (2, ra, ie, mode)
    T = 15 if tier == "quick" else 18
    nhist = 0
    for size in range(1, 7 if (tier != "quick" or ra <= 1) else 6):  # six operations: first failure, retry, evicting call, revival, retry, second eviction
        for st in itertools.combinations(range(0, T + 1), size):
            w = World(cfg)
            w.apply(("fail", 0))
            now = 0
            healed = False
            bad = []
            for t in st:
                if t >= th and not healed:
                    w.apply(("adv", th - now))
                    now = th
                    w.apply(("heal", 0))
                    healed = True
                if t > now:
                    w.apply(("adv", t - now))
                    now = t
                bad = w.op("get" if (t % 3) else "get_many", 0)
                if bad:
                    break
            nhist += 1
            chk.add()
            chk.outcome(("grid1", ra, ie, th, mode, st))
            for clause, text in bad:
                chk.violation(f"{clause}|one-failure-grid|ignore_exc={ie}|retry_attempts={ra}|{mode}",
                              text + f" [h1 fails ({mode}) at 0 and recovers at {th}; operations on its key at times {list(st)}; "
                              f"retry_attempts={ra} ignore_exc={ie}]",
                              {"grid1": [ra, ie, th, mode, list(st)], "tier": tier})
    chk.count("one_failure_histories", nhist)
    chk.count("transitions", nhist)
    chk.count("traces_validated_against_impl", nhist)


def _any_worker(job, chk):
    if job[0] == "grid":
        return _grid_worker(job[1:], chk)
    if job[0] == "grid1":
        return _grid1_worker(job[1:], chk)
    return _worker(job[1:], chk)


def _worker(job, chk):
    cfg, tier = job
    n, ra, ie, mode = cfg
    menu = event_menu(n, tier)
    max_depth = (5 if n == 3 else 7) if tier == "quick" else (7 if n == 3 else 9)
    w0 = World(cfg)
    seen = {w0.canon(): ()}
    frontier = collections.deque([()])
    # a second root: the client has been idle for longer than dead_timeout since construction
    # (its last dead-check time is old) - the full depth is explored from there too
    old = menu.index(("adv", ADVANCES[-1]))
    if n == 2:
        w1 = build(cfg, menu, (old,))
        seen[w1.canon()] = (old,)
        frontier.append((old,))
    transitions = 0
    troubled = 0
    hit_cap = False
    depth_reached = 0
    while frontier:
        hist = frontier.popleft()
        if len(hist) >= max_depth + (1 if hist[:1] == (old,) else 0):
            hit_cap = True
            continue
        depth_reached = max(depth_reached, len(hist) + 1)
        for ei, ev in enumerate(menu):
            w = build(cfg, menu, hist)
            bad = w.apply(ev)
            transitions += 1
            chk.add()
            for clause, text in bad:
                opname = ev[1] if ev[0] == "op" else ev[0]
                sig = f"{clause}|{opname}|ignore_exc={ie}|retry_attempts={ra}|{mode}"
                chk.violation(sig, text + f" [servers={n} retry_attempts={ra} ignore_exc={ie} failure={mode}; history "
                              f"{[menu[e] for e in hist] + [ev]}]",
                              {"cfg": list(cfg), "tier": tier, "history": list(hist) + [ei], "recovery": False})
            k = w.canon()
            if k not in seen:
                seen[k] = hist + (ei,)
                frontier.append(hist + (ei,))
                if w.troubled():
                    troubled += 1
                    chk.outcome((cfg, k))
                # recovery from every reachable state, under two traffic patterns
                rec = w.recovery_check(False) + build(cfg, menu, hist + (ei,)).recovery_check(True) \
                    + build(cfg, menu, hist + (ei,)).recovery_check(len(hist) % 2 == 0, multi=True)
                for clause, text in rec:
                    sig = f"{clause}|ignore_exc={ie}|retry_attempts={ra}|{mode}"
                    chk.violation(sig, text + f" [servers={n} retry_attempts={ra} ignore_exc={ie} failure={mode}; history "
                                  f"{[menu[e] for e in hist] + [ev]}]",
                                  {"cfg": list(cfg), "tier": tier, "history": list(hist) + [ei], "recovery": True})
                chk.count("recovery_suffixes_run")
    chk.count("states", len(seen))
    chk.count("transitions", transitions)
    chk.count("traces_validated_against_impl", transitions)
    chk.maximum("max_depth", depth_reached)
    if hit_cap:
        chk.cap(f"depth cap {max_depth} hit for servers={n} retry_attempts={ra} ignore_exc={ie}")
    if cfg == (2, 1, False, "refused"):
        longest = max(seen.values(), key=len)
        chk.sample({"config": {"servers": n, "retry_attempts": ra, "ignore_exc": ie, "retry_timeout": RT, "dead_timeout": DT},
                    "history": [list(menu[e]) for e in longest], "canonical_state": repr(build(cfg, menu, longest).canon())})


def run(chk):
    chk.rule = RULE
    chk.assumptions = ["'failing' = network-level failure (refused / timeout / reset), which is what the failover logic reacts to",
                       "windows are closed intervals; only contacts made after the server started failing count",
                       "every server holds every key, so a rerouted read still finds a value"]
    jobs = [("bfs", c, chk.tier) for c in configs(chk.tier)]
    jobs += [("grid", (ra, ie, tb), chk.tier) for ra in (1, 2) for ie in (False, True) for tb in (0, 2, 4, 6)]
    jobs += [("grid1", (ra, ie, th, mode), chk.tier) for ra in (0, 1, 2) for ie in (False, True) for th in (1, 3, 5, 99)
             for mode in (("refused", "reset") if chk.tier == "quick" else ("refused", "reset", "unreach", "timeout"))]
    runner.parallel(chk, _any_worker, jobs)


def replay(detail):
    if detail.get("grid1"):
        tmp = runner.Check(PROPERTY, LEVEL, detail.get("tier", "quick"), 0)
        ra, ie, th, mode, st = detail["grid1"]
        _grid1_worker(((ra, ie, th, mode), detail.get("tier", "quick")), tmp)
        return [v["what"] for v in tmp.violations.values()]
    if detail.get("grid"):
        tmp = runner.Check(PROPERTY, LEVEL, detail.get("tier", "quick"), 0)
        ra, ie, tb, b_times = detail["grid"]
        _grid_worker(((ra, ie, tb), detail.get("tier", "quick")), tmp)
        return [v["what"] for v in tmp.violations.values()]
    cfg = tuple(detail["cfg"])
    menu = event_menu(cfg[0], detail.get("tier", "quick"))
    hist = detail["history"]
    w = build(cfg, menu, hist[:-1])
    bad = w.apply(menu[hist[-1]])
    for e in hist:
        print("   ", menu[e])
    print("    state:", w.canon())
    if detail.get("recovery"):
        bad = w.recovery_check(False) + build(cfg, menu, hist).recovery_check(True) \
            + build(cfg, menu, hist).recovery_check(False, multi=True) + build(cfg, menu, hist).recovery_check(True, multi=True)
    return [t for c, t in bad]
